package main

// C05: control flow (jump depth, late-bound targets, function boundaries, statement coverage).

import (
	"fmt"
	"go/ast"
	"go/token"
	"go/types"
	"sort"
	"strings"
)

// ruleJumpDepth: in jumpOut (and every closure under a depth arm that sets an IP), the
// environment whose IP is set and whose Code is indexed sits at the depth the arm names.
func ruleJumpDepth(c *Ctx, rule string) {
	fam := families(c, "fast")
	pk := c.P.Pkg("fast")
	info := pk.TypesInfo
	n := 0
	for _, m := range fam.members {
		if m.UpnIdx < 0 || !isStmtSig(info.TypeOf(m.Lit)) {
			continue
		}
		pe := m.Path[m.UpnIdx]
		var tag ast.Expr
		if s, ok := pe.Node.(*ast.SwitchStmt); ok {
			tag = s.Tag
		}
		if pe.Tag != nil {
			tag = pe.Tag
		}
		if tag == nil || identOf(tag) == nil {
			continue
		}
		// only jump statements: the depth variable is a parameter (jumpOut(upn, ip)) or counts UpCost
		di := fam.di[m.FD]
		if !strings.HasPrefix(chainEndsInField(info, di, tag, 0), "param:") {
			continue
		}
		label := pe.Label
		if i := strings.LastIndexByte(label, '='); i >= 0 {
			label = label[i+1:]
		}
		want, ok := expectedDepth(label)
		if !ok {
			continue
		}
		upnObj := info.Uses[identOf(tag)]
		p := &depthInterp{info: info, di: di, upnObj: upnObj, state: map[types.Object]dval{}, visit: func(access, E, idx ast.Expr, ints bool, d dval) {}}
		for _, f := range m.Lit.Type.Params.List {
			if isEnvPtr(info.TypeOf(f.Type)) {
				for _, nm := range f.Names {
					p.state[info.Defs[nm]] = dval{k: 0}
				}
			}
		}
		p.visitIP = func(sel *ast.SelectorExpr, d dval) {
			n++
			c.Ob(rule, m.Key(), sel, !d.unknown && d == want, fmt.Sprintf("%s is used on frame %s, the arm is labelled %s: a jump out of %s nested blocks must land in that frame's code", exprString(sel), d, label, label))
		}
		p.block(m.Lit.Body.List)
	}
	if n == 0 {
		c.Ob(rule, "fast.Comp.jumpOut", nil, false, "no depth-specialised jump found: anchor missing")
	}
}

// ruleBranchBoundaries: break / continue / goto walk the chain of compilers up to, and not
// across, the enclosing function, accumulating the number of frames to leave.
func ruleBranchBoundaries(c *Ctx, rule string) {
	pk := c.P.Pkg("fast")
	info := pk.TypesInfo
	for _, fk := range []string{"fast.Comp.Break", "fast.Comp.Continue", "fast.Comp.Goto"} {
		fd := c.P.Func(fk)
		if fd == nil {
			c.Ob(rule, fk, nil, false, "anchor function not found")
			continue
		}
		okLoop := false
		why := "no loop over the chain of compilers found"
		ast.Inspect(fd.Body, func(n ast.Node) bool {
			fs, ok := n.(*ast.ForStmt)
			if !ok || fs.Cond == nil {
				return true
			}
			// a conjunct o.Func == nil in the loop condition leaves the loop before the function's own scope is searched
			skipsFunc := false
			for _, a := range andAtoms(fs.Cond) {
				if b, ok := a.(*ast.BinaryExpr); ok && b.Op == token.EQL && identOf(b.Y) != nil && identOf(b.Y).Name == "nil" {
					if _, ok := fieldSel(info, b.X, "Func"); ok {
						skipsFunc = true
					}
				}
			}
			// in the body: the search of this level (jumpOut(upn, ...)), then `if o.Func != nil { break }`, then upn += o.UpCost
			var addPos, jumpPos, stopPos token.Pos
			usesUpn := false
			for _, st := range fs.Body.List {
				if ifs, ok := st.(*ast.IfStmt); ok && ifs.Else == nil && stopPos == 0 {
					if b, ok := unparen(ifs.Cond).(*ast.BinaryExpr); ok && b.Op == token.NEQ && identOf(b.Y) != nil && identOf(b.Y).Name == "nil" {
						if _, ok := fieldSel(info, b.X, "Func"); ok && len(ifs.Body.List) > 0 {
							switch l := ifs.Body.List[len(ifs.Body.List)-1].(type) {
							case *ast.BranchStmt:
								if l.Tok == token.BREAK && l.Label == nil {
									stopPos = ifs.Pos()
								}
							case *ast.ReturnStmt:
								stopPos = ifs.Pos()
							}
						}
					}
				}
			}
			ast.Inspect(fs.Body, func(m ast.Node) bool {
				switch x := m.(type) {
				case *ast.AssignStmt:
					if x.Tok == token.ADD_ASSIGN && len(x.Rhs) == 1 {
						if _, ok := fieldSel(info, x.Rhs[0], "UpCost"); ok && addPos == 0 {
							addPos = x.Pos()
						}
					}
				case *ast.CallExpr:
					if funcFullName(calleeOf(info, x)) == "fast.Comp.jumpOut" && len(x.Args) == 2 {
						jumpPos = x.Pos()
						if id := identOf(x.Args[0]); id != nil {
							usesUpn = true
						}
					}
				}
				return true
			})
			if addPos == 0 || jumpPos == 0 {
				return true
			}
			switch {
			case skipsFunc && fk == "fast.Comp.Continue" && jumpPos < addPos && usesUpn:
				// a continue target always lives in a compiler scope of its own (clause continue-owner below),
				// never in the function's: leaving the loop before the function scope loses nothing
				okLoop = true
			case skipsFunc:
				why = "the loop condition o.Func == nil ends the search before the function's own scope is examined: a label or a select statement directly in a function body is not found"
			case stopPos == 0:
				why = "nothing stops the search at the enclosing function (if o.Func != nil { break } after the search of each level)"
			case !(jumpPos < stopPos && stopPos < addPos):
				why = "the order in the loop body is not: search this level, stop at the function, count the frames of this level"
			case !usesUpn:
				why = "the frame count is not passed to jumpOut"
			default:
				okLoop = true
			}
			return true
		})
		if okLoop {
			why = ""
		}
		c.Ob(rule, fk, fd, okLoop, "the search for the jump target examines every scope up to and including the enclosing function's own, stops there (if o.Func != nil { break } after the search of a level), counts the frames to leave with upn += o.UpCost after each level, and passes that count to jumpOut"+sep(why))
	}
}

// ruleLateBoundTargets: every jump target captured by a statement closure or published through
// LoopInfo is assigned a code position on every path to the normal end of the compile function.
func ruleLateBoundTargets(c *Ctx, rule string) {
	pk := c.P.Pkg("fast")
	info := pk.TypesInfo
	n := 0
	for _, fd := range c.P.FuncsOf("fast") {
		if fd.Body == nil {
			continue
		}
		fkey := funcKey(pk, fd)
		// local struct variables whose fields are all int: `var jump struct{ Cond, Post, Break int }`
		var jumps []types.Object
		ast.Inspect(fd.Body, func(nd ast.Node) bool {
			vs, ok := nd.(*ast.ValueSpec)
			if !ok || len(vs.Values) != 0 {
				return true
			}
			for _, nm := range vs.Names {
				o := info.Defs[nm]
				if o == nil {
					continue
				}
				st, ok := o.Type().Underlying().(*types.Struct)
				if !ok || st.NumFields() == 0 {
					continue
				}
				allInt := true
				for i := 0; i < st.NumFields(); i++ {
					if b, ok := st.Field(i).Type().(*types.Basic); !ok || b.Kind() != types.Int {
						allInt = false
					}
				}
				if allInt {
					jumps = append(jumps, o)
				}
			}
			return true
		})
		for _, jo := range jumps {
			// fields used as targets: read inside a function literal or address taken
			used := map[string]ast.Node{}
			var stack []ast.Node
			ast.Inspect(fd.Body, func(nd ast.Node) bool {
				if nd == nil {
					stack = stack[:len(stack)-1]
					return true
				}
				stack = append(stack, nd)
				sel, ok := nd.(*ast.SelectorExpr)
				if !ok || identOf(sel.X) == nil || info.Uses[identOf(sel.X)] != jo {
					return true
				}
				inLit, addr := false, false
				for i, s := range stack {
					if _, ok := s.(*ast.FuncLit); ok {
						inLit = true
					}
					if u, ok := s.(*ast.UnaryExpr); ok && u.Op == token.AND && i == len(stack)-2 {
						addr = true
					}
				}
				if inLit || addr {
					used[sel.Sel.Name] = sel
				}
				return true
			})
			var fields []string
			for f := range used {
				fields = append(fields, f)
			}
			sort.Strings(fields)
			for _, f := range fields {
				n++
				var assignedIn func(list []ast.Stmt, jo types.Object, depth int) (bool, bool)
				assigned := func(list []ast.Stmt) (bool, bool) { return assignedIn(list, jo, 0) }
				isErrArm := func(body []ast.Stmt) bool {
					e := false
					for _, b := range body {
						inspectCalls(b, func(call *ast.CallExpr) {
							if fn := calleeOf(info, call); fn != nil && isErrorHelper(fn) {
								e = true
							}
						})
					}
					return e
				}
				assignedIn = func(list []ast.Stmt, jo types.Object, depth int) (def bool, bad bool) {
					isTarget := func(e ast.Expr) bool {
						e = unparen(e)
						if call, ok := e.(*ast.CallExpr); ok && funcFullName(calleeOf(info, call)) == "fast.Code.Len" {
							return true
						}
						if sel, ok := e.(*ast.SelectorExpr); ok && identOf(sel.X) != nil && info.Uses[identOf(sel.X)] == jo {
							return true
						}
						return false
					}
					for _, st := range list {
						switch x := st.(type) {
						case *ast.ExprStmt:
							// the struct handed by address to a helper that fills the target
							if call, ok := x.X.(*ast.CallExpr); ok && depth < 2 {
								for ai, a := range call.Args {
									if u, ok := unparen(a).(*ast.UnaryExpr); ok && u.Op == token.AND && identOf(u.X) != nil && info.Uses[identOf(u.X)] == jo {
										if fn := calleeOf(info, call); fn != nil {
											if cfd := c.P.Func(funcFullName(fn)); cfd != nil && cfd.Body != nil {
												// the matching parameter
												k := 0
												for _, pf := range cfd.Type.Params.List {
													for _, nm := range pf.Names {
														if k == ai {
															d, b := assignedIn(cfd.Body.List, info.Defs[nm], depth+1)
															def, bad = def || d, bad || b
														}
														k++
													}
												}
											}
										}
									}
								}
							}
						case *ast.SwitchStmt:
							all := len(x.Body.List) > 0
							for _, cc := range x.Body.List {
								cl := cc.(*ast.CaseClause)
								body := cl.Body
								// a fallthrough arm continues in the next one
								if len(body) > 0 {
									if br, ok := body[len(body)-1].(*ast.BranchStmt); ok && br.Tok == token.FALLTHROUGH {
										continue
									}
								}
								d, b := assignedIn(body, jo, depth)
								bad = bad || b
								if !d && !isErrArm(body) {
									all = false
								}
							}
							if all {
								def = true
							}
						case *ast.AssignStmt:
							for i, l := range x.Lhs {
								if sel, ok := unparen(l).(*ast.SelectorExpr); ok && sel.Sel.Name == f && identOf(sel.X) != nil && info.Uses[identOf(sel.X)] == jo {
									if i < len(x.Rhs) && isTarget(x.Rhs[i]) && x.Tok == token.ASSIGN {
										def = true
									} else {
										bad = true
									}
								}
							}
						case *ast.IfStmt:
							d1, b1 := assignedIn(x.Body.List, jo, depth)
							d2, b2 := false, false
							if blk, ok := x.Else.(*ast.BlockStmt); ok {
								d2, b2 = assignedIn(blk.List, jo, depth)
							} else if ei, ok := x.Else.(*ast.IfStmt); ok {
								d2, b2 = assignedIn([]ast.Stmt{ei}, jo, depth)
							}
							bad = bad || b1 || b2
							if d1 && d2 {
								def = true
							}
							// a branch that reports a compile error and returns needs no target
							if d1 && x.Else == nil {
								// conditional only: not definite
							}
						case *ast.BlockStmt:
							d, b := assignedIn(x.List, jo, depth)
							def, bad = def || d, bad || b
						case *ast.ForStmt:
							_, b := assignedIn(x.Body.List, jo, depth)
							bad = bad || b
						case *ast.RangeStmt:
							_, b := assignedIn(x.Body.List, jo, depth)
							bad = bad || b
						}
					}
					return
				}
				def, bad := assigned(fd.Body.List)
				c.Ob(rule, fmt.Sprintf("%s/%s.%s", fkey, jo.Name(), f), used[f], def && !bad, fmt.Sprintf("jump target %s.%s is captured by generated code or published to break/continue; it is assigned a code position (c.Code.Len() or another target) on every path to the end of %s", jo.Name(), f, fd.Name.Name))
			}
		}
	}
	if n < 5 {
		c.Ob(rule, "fast/jump-targets", nil, false, fmt.Sprintf("only %d late-bound jump targets found: anchor missing", n))
	}
}

// ruleStmtCoverage: Comp.Stmt has a case for every statement node of go/ast.
func ruleStmtCoverage(c *Ctx, fkey, iface, rule string) {
	pk := c.P.PkgOfFunc(fkey)
	fd := c.P.Func(fkey)
	if fd == nil {
		c.Ob(rule, fkey, nil, false, "anchor function not found")
		return
	}
	info := pk.TypesInfo
	var astPkg *types.Package
	for _, imp := range pk.Types.Imports() {
		if imp.Path() == "go/ast" {
			astPkg = imp
		}
	}
	if astPkg == nil {
		c.Ob(rule, fkey, fd, false, "go/ast not imported")
		return
	}
	it := astPkg.Scope().Lookup(iface).Type().Underlying().(*types.Interface)
	cases := map[string]bool{}
	ast.Inspect(fd.Body, func(n ast.Node) bool {
		if ts, ok := n.(*ast.TypeSwitchStmt); ok {
			for _, cc := range ts.Body.List {
				for _, e := range cc.(*ast.CaseClause).List {
					if t := info.TypeOf(e); t != nil {
						cases[types.TypeString(t, func(p *types.Package) string { return p.Name() })] = true
					}
				}
			}
		}
		return true
	})
	n := 0
	for _, name := range astPkg.Scope().Names() {
		tn, ok := astPkg.Scope().Lookup(name).(*types.TypeName)
		if !ok || !tn.Exported() {
			continue
		}
		if _, isStruct := tn.Type().Underlying().(*types.Struct); !isStruct {
			continue
		}
		pt := types.NewPointer(tn.Type())
		if !types.Implements(pt, it) {
			continue
		}
		if strings.HasPrefix(name, "Bad") {
			continue // produced only for syntax errors, which are rejected before compilation
		}
		n++
		c.Ob(rule, fkey+"/*ast."+name, fd, cases["*ast."+name], "statement node *ast."+name+" has its own case (the default arm rejects the statement as unimplemented)")
	}
	if n < 15 {
		c.Ob(rule, fkey, fd, false, "fewer than 15 node types found: anchor missing")
	}
}

// ruleContinueOwner: every LoopInfo with a Continue target is installed in a compiler scope created for that
// statement (c re-bound from pushEnvIfFlag / pushEnvIfLocalBinds earlier in the same function), so that the
// search of Comp.Continue may stop before the function's own scope.
func ruleContinueOwner(c *Ctx, rule string) {
	pk := c.P.Pkg("fast")
	info := pk.TypesInfo
	n := 0
	for _, fd := range c.P.FuncsOf("fast") {
		if fd.Body == nil {
			continue
		}
		ast.Inspect(fd.Body, func(nd ast.Node) bool {
			cl, ok := nd.(*ast.CompositeLit)
			if !ok || !isNamedType(info.TypeOf(cl), "fast", "LoopInfo") {
				return true
			}
			has := false
			for _, el := range cl.Elts {
				if kv, ok := el.(*ast.KeyValueExpr); ok && identOf(kv.Key) != nil && identOf(kv.Key).Name == "Continue" {
					has = true
				}
			}
			if !has {
				return true
			}
			n++
			pushed := false
			ast.Inspect(fd.Body, func(m ast.Node) bool {
				as, ok := m.(*ast.AssignStmt)
				if !ok || as.Pos() > cl.Pos() || len(as.Rhs) != 1 || as.Tok != token.ASSIGN {
					return true
				}
				call, ok := unparen(as.Rhs[0]).(*ast.CallExpr)
				if !ok {
					return true
				}
				switch funcFullName(calleeOf(info, call)) {
				case "fast.Comp.pushEnvIfFlag", "fast.Comp.pushEnvIfLocalBinds", "fast.Comp.pushEnvIfDefine":
					if id := identOf(as.Lhs[0]); id != nil && fd.Recv != nil && len(fd.Recv.List) == 1 && len(fd.Recv.List[0].Names) == 1 && info.Uses[id] == info.Defs[fd.Recv.List[0].Names[0]] {
						pushed = true
					}
				}
				return true
			})
			c.Ob(rule, funcKey(pk, fd)+"/LoopInfo", cl, pushed, "a loop with a continue target is compiled in a scope of its own (the receiver is re-bound to the result of pushEnvIf... before the LoopInfo is installed)")
			return true
		})
	}
	if n == 0 {
		c.Ob(rule, "fast/LoopInfo", nil, false, "no LoopInfo literal with a Continue target found: anchor missing")
	}
}

func sep(s string) string {
	if s == "" {
		return ""
	}
	return ": " + s
}
