package main

// A small path enumerator over the structured statements of one function. Variables with a
// finite domain (a bool flag, a switch tag compared against named constants) are given concrete
// values, so that conditions over them evaluate; every other condition forks. Used for
// "a value whose validity flag is false never reaches a result" rules.

import (
	"fmt"
	"go/ast"
	"go/token"
	"go/types"
	"strings"
)

type pxState struct {
	vals      map[types.Object]string // concrete value of enumerated variables: "true", "false", constant names, "·other"
	undefined map[types.Object]string // variables holding an undefined value -> source
	trace     []string
	gotos     int
}

func (s *pxState) clone() *pxState {
	n := &pxState{vals: map[types.Object]string{}, undefined: map[types.Object]string{}, trace: append([]string{}, s.trace...), gotos: s.gotos}
	for k, v := range s.vals {
		n.vals[k] = v
	}
	for k, v := range s.undefined {
		n.undefined[k] = v
	}
	return n
}

type pxExec struct {
	info *types.Info
	// flagSource: callee name -> true when the first result is undefined if the second is false
	undefinedWhenInexact map[string]bool
	terminates           func(call *ast.CallExpr) bool
	violations           []string
	paths                int
	unsupported          []string
	maxPaths             int
	domain               map[types.Object][]string // variable -> named constants it is compared with
	labels               map[string]func(*pxState) // backward goto targets: label -> re-entry
}

type pxCont func(s *pxState)

func (x *pxExec) obj(e ast.Expr) types.Object {
	id := identOf(e)
	if id == nil {
		return nil
	}
	if o := x.info.Defs[id]; o != nil {
		return o
	}
	return x.info.Uses[id]
}

// touch: evaluates e for its reads; returns the source of an undefined variable read, or "".
// Boolean operators short-circuit on concrete values.
func (x *pxExec) touch(s *pxState, e ast.Expr) string {
	if e == nil {
		return ""
	}
	switch v := unparen(e).(type) {
	case *ast.BinaryExpr:
		if v.Op == token.LAND || v.Op == token.LOR {
			if u := x.touch(s, v.X); u != "" {
				return u
			}
			l := x.cond(s, v.X)
			if v.Op == token.LAND && l == "false" || v.Op == token.LOR && l == "true" {
				return ""
			}
			return x.touch(s, v.Y)
		}
		if u := x.touch(s, v.X); u != "" {
			return u
		}
		return x.touch(s, v.Y)
	case *ast.Ident:
		if o := x.info.Uses[v]; o != nil {
			return s.undefined[o]
		}
		return ""
	case *ast.FuncLit:
		return ""
	default:
		res := ""
		ast.Inspect(v, func(n ast.Node) bool {
			if n == v {
				return true
			}
			if sub, ok := n.(ast.Expr); ok && res == "" {
				res = x.touch(s, sub)
				return false
			}
			return res == ""
		})
		return res
	}
}

// cond evaluates a condition: "true", "false" or "" (unknown).
func (x *pxExec) cond(s *pxState, e ast.Expr) string {
	switch v := unparen(e).(type) {
	case *ast.Ident:
		if o := x.info.Uses[v]; o != nil {
			if val, ok := s.vals[o]; ok && (val == "true" || val == "false") {
				return val
			}
		}
		if v.Name == "true" || v.Name == "false" {
			return v.Name
		}
	case *ast.UnaryExpr:
		if v.Op == token.NOT {
			switch x.cond(s, v.X) {
			case "true":
				return "false"
			case "false":
				return "true"
			}
		}
	case *ast.BinaryExpr:
		switch v.Op {
		case token.LAND:
			l, r := x.cond(s, v.X), x.cond(s, v.Y)
			if l == "false" || r == "false" {
				return "false"
			}
			if l == "true" && r == "true" {
				return "true"
			}
		case token.LOR:
			l, r := x.cond(s, v.X), x.cond(s, v.Y)
			if l == "true" || r == "true" {
				return "true"
			}
			if l == "false" && r == "false" {
				return "false"
			}
		case token.EQL, token.NEQ:
			if o := x.obj(v.X); o != nil {
				if val, ok := s.vals[o]; ok {
					if cn := x.constName(v.Y); cn != "" {
						eq := val == cn
						if v.Op == token.NEQ {
							eq = !eq
						}
						return fmt.Sprint(eq)
					}
				}
			}
		}
	}
	return ""
}

func (x *pxExec) constName(e ast.Expr) string {
	if o := usedObj(x.info, e); o != nil {
		if _, ok := o.(*types.Const); ok {
			return objQName(o)
		}
	}
	return ""
}

func (x *pxExec) violation(s *pxState, what string) {
	x.violations = append(x.violations, what+" on path ["+strings.Join(s.trace, "; ")+"]")
}

func (x *pxExec) block(list []ast.Stmt, s *pxState, k pxCont) {
	if len(list) == 0 {
		k(s)
		return
	}
	x.stmt(list[0], s, func(s2 *pxState) { x.block(list[1:], s2, k) })
}

func (x *pxExec) fork(s *pxState, label string, thenF, elseF func(*pxState)) {
	a := s.clone()
	a.trace = append(a.trace, label)
	thenF(a)
	b := s.clone()
	b.trace = append(b.trace, "!("+label+")")
	elseF(b)
}

func (x *pxExec) stmt(st ast.Stmt, s *pxState, k pxCont) {
	if x.paths > x.maxPaths {
		return
	}
	switch v := st.(type) {
	case nil:
		k(s)
	case *ast.BlockStmt:
		x.block(v.List, s, k)
	case *ast.ExprStmt:
		if call, ok := v.X.(*ast.CallExpr); ok && x.terminates != nil && x.terminates(call) {
			x.paths++
			return // path ends (panic)
		}
		x.touch(s, v.X)
		k(s)
	case *ast.DeclStmt:
		if gd, ok := v.Decl.(*ast.GenDecl); ok {
			for _, sp := range gd.Specs {
				if vs, ok := sp.(*ast.ValueSpec); ok {
					for i, nm := range vs.Names {
						o := x.info.Defs[nm]
						delete(s.undefined, o)
						if i < len(vs.Values) {
							if u := x.touch(s, vs.Values[i]); u != "" {
								s.undefined[o] = u
							}
						} else if b, ok := o.Type().Underlying().(*types.Basic); ok && b.Kind() == types.Bool {
							s.vals[o] = "false"
						}
					}
				}
			}
		}
		k(s)
	case *ast.AssignStmt:
		// v, ok = F(x)
		if len(v.Lhs) == 2 && len(v.Rhs) == 1 {
			if call, ok := unparen(v.Rhs[0]).(*ast.CallExpr); ok {
				fn := calleeOf(x.info, call)
				vo, fo := x.obj(v.Lhs[0]), x.obj(v.Lhs[1])
				if fn != nil && fo != nil {
					if b, ok := fo.Type().Underlying().(*types.Basic); ok && b.Kind() == types.Bool {
						x.touch(s, call)
						name := fn.Name()
						x.fork(s, fmt.Sprintf("%s from %s", exprString(v.Lhs[1]), name), func(a *pxState) {
							a.vals[fo] = "true"
							if vo != nil {
								delete(a.undefined, vo)
							}
							k(a)
						}, func(b *pxState) {
							b.vals[fo] = "false"
							if vo != nil {
								delete(b.undefined, vo)
								if x.undefinedWhenInexact[name] {
									b.undefined[vo] = fmt.Sprintf("%s (undefined when not exact)", name)
								}
							}
							k(b)
						})
						return
					}
				}
			}
		}
		var us []string
		for _, r := range v.Rhs {
			us = append(us, x.touch(s, r))
		}
		for i, l := range v.Lhs {
			o := x.obj(l)
			if o == nil {
				x.touch(s, l)
				continue
			}
			u := ""
			if len(us) == len(v.Lhs) {
				u = us[i]
			} else if len(us) == 1 {
				u = us[0]
			}
			if v.Tok != token.ASSIGN && v.Tok != token.DEFINE && u == "" {
				u = s.undefined[o]
			}
			delete(s.undefined, o)
			delete(s.vals, o)
			if u != "" {
				s.undefined[o] = u
			} else if len(v.Rhs) == len(v.Lhs) {
				if c := x.cond(s, v.Rhs[i]); c != "" {
					if b, ok := o.Type().Underlying().(*types.Basic); ok && b.Kind() == types.Bool {
						s.vals[o] = c
					}
				}
			}
		}
		k(s)
	case *ast.IncDecStmt:
		k(s)
	case *ast.ReturnStmt:
		x.paths++
		for _, r := range v.Results {
			if u := x.touch(s, r); u != "" {
				x.violation(s, fmt.Sprintf("result %s holds a value from %s", exprString(r), u))
			}
		}
	case *ast.IfStmt:
		x.stmt(v.Init, s, func(s1 *pxState) {
			thenF := func(a *pxState) { x.block(v.Body.List, a, k) }
			elseF := func(b *pxState) {
				if v.Else != nil {
					x.stmt(v.Else, b, k)
				} else {
					k(b)
				}
			}
			x.enumerate(s1, v.Cond, func(s2 *pxState) {
				switch x.cond(s2, v.Cond) {
				case "true":
					thenF(s2)
				case "false":
					elseF(s2)
				default:
					x.forkCond(s2, v.Cond, thenF, elseF)
				}
			})
		})
	case *ast.SwitchStmt:
		x.stmt(v.Init, s, func(s1 *pxState) {
			if v.Tag != nil {
				x.touch(s1, v.Tag)
			}
			clauses := v.Body.List
			runFrom := func(i int, st *pxState) {
				// execute clause i, following fallthrough
				var run func(i int, st *pxState)
				run = func(i int, st *pxState) {
					cl := clauses[i].(*ast.CaseClause)
					body := cl.Body
					ft := false
					if n := len(body); n > 0 {
						if br, ok := body[n-1].(*ast.BranchStmt); ok && br.Tok == token.FALLTHROUGH {
							ft = true
							body = body[:n-1]
						}
					}
					x.block(body, st, func(s2 *pxState) {
						if ft && i+1 < len(clauses) {
							run(i+1, s2)
						} else {
							k(s2)
						}
					})
				}
				run(i, st)
			}
			tagObj := types.Object(nil)
			if v.Tag != nil {
				tagObj = x.obj(v.Tag)
			}
			// collect the labels
			var labels [][]string
			def := -1
			for i, cc := range clauses {
				cl := cc.(*ast.CaseClause)
				if cl.List == nil {
					def = i
				}
				var ls []string
				for _, e := range cl.List {
					ls = append(ls, x.constName(e))
				}
				labels = append(labels, ls)
			}
			if tagObj != nil {
				if val, ok := s1.vals[tagObj]; ok {
					for i, ls := range labels {
						for _, l := range ls {
							if l != "" && l == val {
								runFrom(i, s1)
								return
							}
						}
					}
					if def >= 0 {
						runFrom(def, s1)
					} else {
						k(s1)
					}
					return
				}
			}
			// unknown tag: every arm is possible; when the tag is a variable compared with constants, bind it
			allConst := v.Tag != nil
			for i, ls := range labels {
				if i != def {
					for _, l := range ls {
						if l == "" {
							allConst = false
						}
					}
				}
			}
			tagS := "true"
			if v.Tag != nil {
				tagS = exprString(v.Tag)
			}
			for i, ls := range labels {
				if i == def {
					continue
				}
				if allConst && tagObj != nil {
					for _, l := range ls {
						a := s1.clone()
						a.vals[tagObj] = l
						a.trace = append(a.trace, tagS+"="+shortConst(l))
						runFrom(i, a)
					}
				} else {
					a := s1.clone()
					a.trace = append(a.trace, fmt.Sprintf("%s in case %d", tagS, i+1))
					if v.Tag == nil {
						// tagless switch: case conditions
						cl := clauses[i].(*ast.CaseClause)
						if len(cl.List) == 1 {
							x.assume(a, cl.List[0], true)
						}
					}
					runFrom(i, a)
				}
			}
			a := s1.clone()
			if allConst && tagObj != nil {
				a.vals[tagObj] = "·other"
			}
			a.trace = append(a.trace, tagS+"=other")
			if def >= 0 {
				runFrom(def, a)
			} else {
				k(a)
			}
		})
	case *ast.ForStmt, *ast.RangeStmt:
		// zero or one iteration
		var body *ast.BlockStmt
		if f, ok := v.(*ast.ForStmt); ok {
			body = f.Body
		} else {
			body = v.(*ast.RangeStmt).Body
		}
		x.fork(s, "loop", func(a *pxState) { x.block(body.List, a, k) }, func(b *pxState) { k(b) })
	case *ast.BranchStmt:
		if v.Tok == token.BREAK || v.Tok == token.CONTINUE {
			k(s) // approximated: continue after the enclosing statement
			return
		}
		if v.Tok == token.GOTO && v.Label != nil {
			if re := x.labels[v.Label.Name]; re != nil {
				// backward goto: re-enter the labelled statement once per path
				if s.gotos >= 1 {
					x.paths++
					return
				}
				s.gotos++
				s.trace = append(s.trace, "goto "+v.Label.Name)
				re(s)
				return
			}
		}
		x.unsupported = append(x.unsupported, "branch "+v.Tok.String())
		x.paths++
	case *ast.LabeledStmt:
		if x.labels == nil {
			x.labels = map[string]func(*pxState){}
		}
		x.labels[v.Label.Name] = func(s2 *pxState) { x.stmt(v.Stmt, s2, k) }
		x.stmt(v.Stmt, s, k)
	case *ast.TypeSwitchStmt:
		for _, cc := range v.Body.List {
			a := s.clone()
			x.block(cc.(*ast.CaseClause).Body, a, k)
		}
	case *ast.DeferStmt, *ast.GoStmt, *ast.EmptyStmt, *ast.SendStmt:
		k(s)
	default:
		x.unsupported = append(x.unsupported, fmt.Sprintf("%T", st))
		k(s)
	}
}

// assume records what a condition taken as true/false tells about enumerated variables.
func (x *pxExec) assume(s *pxState, cond ast.Expr, val bool) {
	switch v := unparen(cond).(type) {
	case *ast.Ident:
		if o := x.info.Uses[v]; o != nil {
			if b, ok := o.Type().Underlying().(*types.Basic); ok && b.Kind() == types.Bool {
				s.vals[o] = fmt.Sprint(val)
			}
		}
	case *ast.UnaryExpr:
		if v.Op == token.NOT {
			x.assume(s, v.X, !val)
		}
	case *ast.BinaryExpr:
		if v.Op == token.LAND && val || v.Op == token.LOR && !val {
			x.assume(s, v.X, val)
			x.assume(s, v.Y, val)
		}
		if (v.Op == token.EQL && val || v.Op == token.NEQ && !val) && x.constName(v.Y) != "" {
			if o := x.obj(v.X); o != nil {
				if _, known := s.vals[o]; !known {
					s.vals[o] = x.constName(v.Y)
				}
			}
		}
	}
}

func (x *pxExec) forkCond(s *pxState, cond ast.Expr, thenF, elseF func(*pxState)) {
	a := s.clone()
	a.trace = append(a.trace, exprString(cond))
	x.assume(a, cond, true)
	thenF(a)
	b := s.clone()
	b.trace = append(b.trace, "!("+exprString(cond)+")")
	x.assume(b, cond, false)
	elseF(b)
}

func shortConst(q string) string {
	if i := strings.LastIndex(q, "/"); i >= 0 {
		return q[i+1:]
	}
	return q
}

// enumerate binds, by forking, every unbound variable that cond compares with a named constant.
func (x *pxExec) enumerate(s *pxState, cond ast.Expr, k pxCont) {
	var target types.Object
	ast.Inspect(cond, func(n ast.Node) bool {
		if b, ok := n.(*ast.BinaryExpr); ok && (b.Op == token.EQL || b.Op == token.NEQ) && target == nil {
			if o := x.obj(b.X); o != nil && x.constName(b.Y) != "" {
				if _, known := s.vals[o]; !known && len(x.domain[o]) > 0 {
					target = o
				}
			}
		}
		return true
	})
	if target == nil {
		k(s)
		return
	}
	for _, val := range append(append([]string{}, x.domain[target]...), "·other") {
		a := s.clone()
		a.vals[target] = val
		a.trace = append(a.trace, target.Name()+"="+shortConst(val))
		x.enumerate(a, cond, k)
	}
}

// runFunc enumerates the paths of fd.
func (x *pxExec) runFunc(fd *ast.FuncDecl) {
	x.domain = map[types.Object][]string{}
	seen := map[string]bool{}
	ast.Inspect(fd.Body, func(n ast.Node) bool {
		if b, ok := n.(*ast.BinaryExpr); ok && (b.Op == token.EQL || b.Op == token.NEQ) {
			if o := x.obj(b.X); o != nil {
				if cn := x.constName(b.Y); cn != "" && !seen[o.Name()+cn] {
					seen[o.Name()+cn] = true
					x.domain[o] = append(x.domain[o], cn)
				}
			}
		}
		return true
	})
	s := &pxState{vals: map[types.Object]string{}, undefined: map[types.Object]string{}}
	x.block(fd.Body.List, s, func(end *pxState) { x.paths++ })
}
