package main

import (
	"fmt"
	"go/ast"
	"go/token"
	"go/types"
	"sort"
	"strings"
)

// famCache memoises member discovery per loaded program and package.
type famData struct {
	members []*Member
	di      map[*ast.FuncDecl]*defIndex
}

var famCache = map[*Prog]map[string]*famData{}

func families(c *Ctx, short string) *famData {
	if famCache[c.P] == nil {
		famCache[c.P] = map[string]*famData{}
	}
	if d, ok := famCache[c.P][short]; ok {
		return d
	}
	pk := c.P.Pkg(short)
	if pk == nil {
		c.Fatal("package %s not loaded", short)
		return &famData{}
	}
	d := &famData{members: discoverMembers(pk), di: map[*ast.FuncDecl]*defIndex{}}
	for _, m := range d.members {
		if d.di[m.FD] == nil {
			d.di[m.FD] = buildDefIndex(pk.TypesInfo, m.FD)
		}
	}
	famCache[c.P][short] = d
	return d
}

// inFiles filters members by base file name.
func inFiles(c *Ctx, ms []*Member, files ...string) []*Member {
	set := map[string]bool{}
	for _, f := range files {
		set[f] = true
	}
	var out []*Member
	for _, m := range ms {
		if set[baseName(c.P.Fset, m.Lit)] {
			out = append(out, m)
		}
	}
	return out
}

// ruleUniformity: sibling cross-check. Members of one kind-switch that sit at the
// same position below their arm must have the same canonical term (τ/κ abstracted).
func ruleUniformity(c *Ctx, short string, files []string, rule string) {
	fd := families(c, short)
	ms := fd.members
	if len(files) > 0 {
		ms = inFiles(c, ms, files...)
	}
	type group struct {
		key     string
		members []*Member
	}
	groups := map[string]*group{}
	var order []string
	for _, m := range ms {
		if m.KindIdx < 0 || len(m.Kinds) != 1 {
			continue
		}
		sw := m.Path[m.KindIdx].Node
		gk := fmt.Sprintf("%s/%s@%d|%s|%d", m.FKey, m.pathString(0)[:len(pathPrefix(m, m.KindIdx))], sw.Pos(), m.pathString(m.KindIdx+1), m.Ord)
		g := groups[gk]
		if g == nil {
			g = &group{key: gk}
			groups[gk] = g
			order = append(order, gk)
		}
		g.members = append(g.members, m)
	}
	nfam, nmem := 0, 0
	for _, gk := range order {
		g := groups[gk]
		if len(g.members) < 2 {
			continue
		}
		nfam++
		canon := map[*Member]string{}
		for _, m := range g.members {
			canon[m] = canonMember(c.P.Fset, m, fd.di[m.FD])
			nmem++
		}
		// per category: cluster by pairwise matching against class representatives
		byCat := map[string][]*Member{}
		var cats []string
		for _, m := range g.members {
			cat := kindCategory(m.Kinds[0])
			if byCat[cat] == nil {
				cats = append(cats, cat)
			}
			byCat[cat] = append(byCat[cat], m)
		}
		reported := map[*Member]bool{}
		for _, cat := range cats {
			var classes [][]*Member
			for _, m := range byCat[cat] {
				placed := false
				for i, cl := range classes {
					if termsMatch(canon[cl[0]], canon[m], cl[0].Tau, m.Tau) {
						classes[i] = append(cl, m)
						placed = true
						break
					}
				}
				if !placed {
					classes = append(classes, []*Member{m})
				}
			}
			if len(classes) == 1 {
				continue
			}
			sort.SliceStable(classes, func(i, j int) bool { return len(classes[i]) > len(classes[j]) })
			tie := len(classes[0]) == len(classes[1])
			best := classes[0][0]
			// classes of the other categories (size >= 2) of this family
			matchesOther := func(m *Member) bool {
				for _, oc := range cats {
					if oc == cat {
						continue
					}
					n := 0
					for _, o := range byCat[oc] {
						if termsMatch(canon[o], canon[m], o.Tau, m.Tau) {
							n++
						}
					}
					if n >= 1 {
						return true
					}
				}
				return false
			}
			for i, cl := range classes {
				if i == 0 && !tie {
					continue
				}
				for _, m := range cl {
					if tie && matchesOther(m) {
						// undecidable inside the category, but the arm agrees with a whole other category
						continue
					}
					ref := best
					if ref == m {
						ref = classes[1][0]
					}
					reported[m] = true
					c.Ob(rule, m.Key(), m.Lit, false, "differs from the other "+cat+"-category arms of the same family: "+diffTerms(showTerm(canon[ref], ref.Tau), showTerm(canon[m], m.Tau)))
				}
			}
		}
		// categories with a single member (Bool, String, ...) have no same-category sibling: when every
		// other category of the family is unanimous, the lone member must agree with them too
		if crossCategory {
			var others []*Member
			unanimous := true
			for _, cat := range cats {
				if len(byCat[cat]) < 2 {
					continue
				}
				for _, m := range byCat[cat] {
					if reported[m] {
						unanimous = false
					}
					others = append(others, m)
				}
			}
			for i := 1; i < len(others) && unanimous; i++ {
				if !termsMatch(canon[others[0]], canon[others[i]], others[0].Tau, others[i].Tau) {
					unanimous = false
				}
			}
			if unanimous && len(others) >= 4 {
				for _, cat := range cats {
					if len(byCat[cat]) != 1 {
						continue
					}
					m := byCat[cat][0]
					if !termsMatch(canon[others[0]], canon[m], others[0].Tau, m.Tau) &&
						!termsMatch(normalizeStorage(canon[others[0]]), normalizeStorage(canon[m]), others[0].Tau, m.Tau) {
						reported[m] = true
						c.Ob(rule+"-lone", m.Key(), m.Lit, false, "the only "+cat+" arm differs from the unanimous arms of every other category: "+diffTerms(showTerm(canon[others[0]], others[0].Tau), showTerm(canon[m], m.Tau)))
					} else {
						c.Ob(rule+"-lone", m.Key(), m.Lit, true, "agrees with the arms of the other categories")
						reported[m] = true
					}
				}
			}
		}
		for _, m := range g.members {
			if !reported[m] {
				c.Ob(rule, m.Key(), m.Lit, true, short70(showTerm(canon[m], m.Tau)))
			}
		}
	}
	c.Extra(rule+"_families", nfam)
}

// crossCategory enables the lone-member comparison (see ruleUniformity).
var crossCategory = true

func pathPrefix(m *Member, n int) string {
	var sb strings.Builder
	for i := 0; i < n; i++ {
		if i > 0 {
			sb.WriteByte('/')
		}
		sb.WriteString(m.Path[i].Kind + ":" + m.Path[i].Label)
	}
	return sb.String()
}

func short70(s string) string {
	if len(s) > 160 {
		return s[:157] + "..."
	}
	return s
}

// diffTerms shows the first differing region of two canonical terms.
func diffTerms(a, b string) string {
	i := 0
	for i < len(a) && i < len(b) && a[i] == b[i] {
		i++
	}
	j, k := len(a), len(b)
	for j > i && k > i && a[j-1] == b[k-1] {
		j--
		k--
	}
	lo := i - 30
	if lo < 0 {
		lo = 0
	}
	ea, eb := j+20, k+20
	if ea > len(a) {
		ea = len(a)
	}
	if eb > len(b) {
		eb = len(b)
	}
	for lo > 0 && !isRuneStart(a[lo]) {
		lo--
	}
	for ea < len(a) && !isRuneStart(a[ea]) {
		ea++
	}
	for eb < len(b) && !isRuneStart(b[eb]) {
		eb++
	}
	return fmt.Sprintf("expected …%s… found …%s…", a[lo:ea], b[lo:eb])
}

func isRuneStart(b byte) bool { return b&0xC0 != 0x80 }

func sortMembers(ms []*Member) {
	sort.Slice(ms, func(i, j int) bool { return ms[i].Lit.Pos() < ms[j].Lit.Pos() })
}

// outerLabels finds kind switches whose single-label arms each call a distinct function of
// identical signature (func1ret1 dispatching to func1ret1Int8, func1ret1Int16, ...): the
// callee is thereby labelled with the arm's kind.
func outerLabels(c *Ctx, short string) (map[*ast.FuncDecl]string, map[*ast.FuncDecl]token.Pos) {
	pk := c.P.Pkg(short)
	info := pk.TypesInfo
	label := map[*ast.FuncDecl]string{}
	sw := map[*ast.FuncDecl]token.Pos{}
	for _, fd := range c.P.FuncsOf(short) {
		if fd.Body == nil {
			continue
		}
		ast.Inspect(fd.Body, func(n ast.Node) bool {
			s, ok := n.(*ast.SwitchStmt)
			if !ok || s.Tag == nil || !isReflectKind(info.TypeOf(s.Tag)) {
				return true
			}
			type armCallee struct {
				kind string
				fn   *types.Func
			}
			var arms []armCallee
			okAll := true
			for _, cc := range s.Body.List {
				cl := cc.(*ast.CaseClause)
				if len(cl.List) != 1 || len(cl.Body) != 1 {
					if cl.List == nil {
						continue
					}
					okAll = false
					continue
				}
				var call *ast.CallExpr
				switch st := cl.Body[0].(type) {
				case *ast.AssignStmt:
					if len(st.Rhs) == 1 {
						call, _ = unparen(st.Rhs[0]).(*ast.CallExpr)
					}
				case *ast.ReturnStmt:
					if len(st.Results) == 1 {
						call, _ = unparen(st.Results[0]).(*ast.CallExpr)
					}
				}
				if call == nil {
					okAll = false
					continue
				}
				fn := calleeOf(info, call)
				if fn == nil || fn.Pkg() != pk.Types {
					okAll = false
					continue
				}
				arms = append(arms, armCallee{kindLabel(info, cl.List[0]), fn})
			}
			if !okAll || len(arms) < 4 {
				return true
			}
			seen := map[*types.Func]bool{}
			sig := types.TypeString(arms[0].fn.Type(), nil)
			for _, a := range arms {
				if seen[a.fn] || types.TypeString(a.fn.Type(), nil) != sig {
					return true
				}
				seen[a.fn] = true
			}
			for _, a := range arms {
				if cfd := c.P.Func(funcFullName(a.fn)); cfd != nil {
					label[cfd] = a.kind
					sw[cfd] = s.Pos()
				}
			}
			return true
		})
	}
	return label, sw
}

// ruleUniformity2D: members at the same position of sibling functions that one kind
// switch dispatches to (outer label) must have the same canonical term, modulo the outer
// and the inner label types. This covers the arms that are alone in their category
// inside one function (Bool, String results).
func ruleUniformity2D(c *Ctx, short string, files []string, rule string) {
	fd := families(c, short)
	ms := fd.members
	if len(files) > 0 {
		ms = inFiles(c, ms, files...)
	}
	labels, sws := outerLabels(c, short)
	type group struct{ members []*Member }
	groups := map[string]*group{}
	var order []string
	for _, m := range ms {
		ol, ok := labels[m.FD]
		if !ok {
			continue
		}
		if _, isBasic := kindToBasic[ol]; !isBasic {
			continue
		}
		gk := fmt.Sprintf("%d|%s|%d", sws[m.FD], m.pathString(0), m.Ord)
		g := groups[gk]
		if g == nil {
			g = &group{}
			groups[gk] = g
			order = append(order, gk)
		}
		g.members = append(g.members, m)
	}
	outerT := func(m *Member) types.Type { return types.Typ[kindToBasic[labels[m.FD]]] }
	nfam := 0
	for _, gk := range order {
		g := groups[gk]
		if len(g.members) < 3 {
			continue
		}
		nfam++
		canon := map[*Member]string{}
		for _, m := range g.members {
			canon[m] = canonMember(c.P.Fset, m, fd.di[m.FD])
		}
		byCat := map[string][]*Member{}
		var cats []string
		for _, m := range g.members {
			cat := kindCategory(labels[m.FD])
			if byCat[cat] == nil {
				cats = append(cats, cat)
			}
			byCat[cat] = append(byCat[cat], m)
		}
		reported := map[*Member]bool{}
		for _, cat := range cats {
			var classes [][]*Member
			for _, m := range byCat[cat] {
				placed := false
				for i, cl := range classes {
					if termsMatch2(canon[cl[0]], canon[m], cl[0].Tau, outerT(cl[0]), m.Tau, outerT(m)) {
						classes[i] = append(cl, m)
						placed = true
						break
					}
				}
				if !placed {
					classes = append(classes, []*Member{m})
				}
			}
			if len(classes) == 1 {
				continue
			}
			sort.SliceStable(classes, func(i, j int) bool { return len(classes[i]) > len(classes[j]) })
			tie := len(classes[0]) == len(classes[1])
			matchesOther := func(m *Member) bool {
				for _, oc := range cats {
					if oc == cat {
						continue
					}
					for _, o := range byCat[oc] {
						if termsMatch2(canon[o], canon[m], o.Tau, outerT(o), m.Tau, outerT(m)) {
							return true
						}
					}
				}
				return false
			}
			for i, cl := range classes {
				if i == 0 && !tie {
					continue
				}
				for _, m := range cl {
					if tie && matchesOther(m) {
						continue
					}
					ref := classes[0][0]
					if ref == m {
						ref = classes[1][0]
					}
					reported[m] = true
					c.Ob(rule, m.Key(), m.Lit, false, "differs from the same arm of the sibling functions dispatched for the other "+cat+" kinds: "+diffTerms(showTerm(showOuter(canon[ref], outerT(ref)), ref.Tau), showTerm(showOuter(canon[m], outerT(m)), m.Tau)))
				}
			}
		}
		for _, m := range g.members {
			if !reported[m] {
				c.Ob(rule, m.Key(), m.Lit, true, "agrees with the same arm of its sibling functions")
			}
		}
	}
	c.Extra(rule+"_families", nfam)
}

// showOuter renders the outer label's type as σ.
func showOuter(a string, t types.Type) string {
	if b, ok := t.(*types.Basic); ok {
		a = strings.ReplaceAll(a, "⟦"+b.Name()+"⟧", "σ")
	}
	return a
}
