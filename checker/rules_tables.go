package main

// E6 table agreement for the precompiled import tables (C31, C11 proxy part, C32
// literal part). Oracle: the type-checker's view of the imported package.

import (
	"fmt"
	"go/ast"
	"go/constant"
	"go/token"
	"go/types"
	"sort"
	"strconv"
	"strings"

	"golang.org/x/tools/go/packages"
)

type importTable struct {
	pk    *packages.Package
	path  string // key of Packages[...]
	lit   *ast.CompositeLit
	field map[string]*ast.CompositeLit
	name  ast.Expr
}

// findImportTables finds every `Packages["path"] = Package{...}` assignment.
func findImportTables(p *Prog) []importTable {
	var out []importTable
	for _, pk := range p.All {
		if !strings.HasPrefix(pk.PkgPath, modPath+"/imports") && !strings.HasPrefix(pk.PkgPath, modPath+"/xreflect") {
			continue
		}
		for _, f := range pk.Syntax {
			ast.Inspect(f, func(n ast.Node) bool {
				as, ok := n.(*ast.AssignStmt)
				if !ok || len(as.Lhs) != 1 || len(as.Rhs) != 1 {
					return true
				}
				ix, ok := as.Lhs[0].(*ast.IndexExpr)
				if !ok {
					return true
				}
				id, ok := ix.X.(*ast.Ident)
				if !ok || id.Name != "Packages" {
					return true
				}
				tv, ok := pk.TypesInfo.Types[ix.Index]
				if !ok || tv.Value == nil || tv.Value.Kind() != constant.String {
					return true
				}
				cl, ok := as.Rhs[0].(*ast.CompositeLit)
				if !ok {
					return true
				}
				t := importTable{pk: pk, path: constant.StringVal(tv.Value), lit: cl, field: map[string]*ast.CompositeLit{}}
				for _, e := range cl.Elts {
					kv, ok := e.(*ast.KeyValueExpr)
					if !ok {
						continue
					}
					k, ok := kv.Key.(*ast.Ident)
					if !ok {
						continue
					}
					if k.Name == "Name" {
						t.name = kv.Value
					}
					if v, ok := kv.Value.(*ast.CompositeLit); ok {
						t.field[k.Name] = v
					}
				}
				out = append(out, t)
				return true
			})
		}
	}
	sort.Slice(out, func(i, j int) bool {
		if out[i].path != out[j].path {
			return out[i].path < out[j].path
		}
		return out[i].pk.PkgPath < out[j].pk.PkgPath
	})
	return out
}

func strKey(info *types.Info, e ast.Expr) (string, bool) {
	tv, ok := info.Types[e]
	if !ok || tv.Value == nil || tv.Value.Kind() != constant.String {
		return "", false
	}
	return constant.StringVal(tv.Value), true
}

// isReflectFunc reports whether call is reflect.<name>(...) (dot-imported or qualified).
func isReflectFunc(info *types.Info, call *ast.CallExpr, name string) bool {
	var id *ast.Ident
	switch f := unparen(call.Fun).(type) {
	case *ast.Ident:
		id = f
	case *ast.SelectorExpr:
		id = f.Sel
	default:
		return false
	}
	obj := info.Uses[id]
	fn, ok := obj.(*types.Func)
	return ok && fn.Name() == name && fn.Pkg() != nil && fn.Pkg().Path() == "reflect"
}

func isReflectMethod(info *types.Info, call *ast.CallExpr, name string) (ast.Expr, bool) {
	sel, ok := unparen(call.Fun).(*ast.SelectorExpr)
	if !ok || sel.Sel.Name != name {
		return nil, false
	}
	fn, ok := info.Uses[sel.Sel].(*types.Func)
	if !ok || fn.Pkg() == nil || fn.Pkg().Path() != "reflect" {
		return nil, false
	}
	return sel.X, true
}

// objOfRef resolves `P.K` or `K` to its object.
func objOfRef(info *types.Info, e ast.Expr) types.Object {
	switch x := unparen(e).(type) {
	case *ast.SelectorExpr:
		if _, ok := info.Uses[identOf(x.X)].(*types.PkgName); ok {
			return info.Uses[x.Sel]
		}
	case *ast.Ident:
		return info.Uses[x]
	}
	return nil
}

func identOf(e ast.Expr) *ast.Ident {
	id, _ := unparen(e).(*ast.Ident)
	return id
}

func ruleImportTables(c *Ctx) {
	tabs := findImportTables(c.P)
	nb, nt, nu, npx, nw := 0, 0, 0, 0, 0
	untypedWithoutEntry := 0
	for _, t := range tabs {
		info := t.pk.TypesInfo
		base := "imports[" + t.path + "]"
		var tpkg *types.Package // the package the entries resolve to
		checkObj := func(rule, k string, at ast.Node, obj types.Object) bool {
			if obj == nil {
				c.Ob(rule, base+"."+k, at, false, "entry does not resolve to a package-level object")
				return false
			}
			if obj.Pkg() == nil || obj.Parent() != obj.Pkg().Scope() {
				c.Ob(rule, base+"."+k, at, false, fmt.Sprintf("%s is not a package-level object", obj.Name()))
				return false
			}
			if obj.Name() != k {
				c.Ob(rule, base+"."+k, at, false, fmt.Sprintf("name %q is bound to %s.%s", k, obj.Pkg().Path(), obj.Name()))
				return false
			}
			if !pathMatches(obj.Pkg().Path(), t.path) {
				c.Ob(rule, base+"."+k, at, false, fmt.Sprintf("name %q of package %q is bound to an object of package %q", k, t.path, obj.Pkg().Path()))
				return false
			}
			if !obj.Exported() {
				c.Ob(rule, base+"."+k, at, false, "object is not exported")
				return false
			}
			if tpkg == nil {
				tpkg = obj.Pkg()
			}
			return true
		}
		constBinds := map[string]*types.Const{}
		if cl := t.field["Binds"]; cl != nil {
			for _, e := range cl.Elts {
				kv := e.(*ast.KeyValueExpr)
				k, ok := strKey(info, kv.Key)
				if !ok {
					c.Ob("T1-bind", base+".?", kv, false, "non-constant key")
					continue
				}
				nb++
				// shapes: ValueOf(X) | ValueOf(&X).Elem()
				val := unparen(kv.Value)
				byAddr := false
				call, _ := val.(*ast.CallExpr)
				if call != nil {
					if recv, ok := isReflectMethod(info, call, "Elem"); ok {
						inner, _ := unparen(recv).(*ast.CallExpr)
						if inner != nil && isReflectFunc(info, inner, "ValueOf") && len(inner.Args) == 1 {
							if u, ok := unparen(inner.Args[0]).(*ast.UnaryExpr); ok && u.Op == token.AND {
								byAddr = true
								call = inner
							}
						}
					}
				}
				if call == nil || !isReflectFunc(info, call, "ValueOf") || len(call.Args) != 1 {
					c.Ob("T1-bind", base+"."+k, kv, false, "unrecognised bind shape "+exprString(kv.Value))
					continue
				}
				arg := unparen(call.Args[0])
				if byAddr {
					arg = unparen(arg.(*ast.UnaryExpr).X)
				}
				// optional conversion T(P.K) for constants
				var conv *ast.CallExpr
				if ce, ok := arg.(*ast.CallExpr); ok && len(ce.Args) == 1 {
					if tv, ok := info.Types[ce.Fun]; ok && tv.IsType() {
						conv = ce
						arg = unparen(ce.Args[0])
					}
				}
				obj := objOfRef(info, arg)
				if !checkObj("T1-bind", k, kv, obj) {
					continue
				}
				switch o := obj.(type) {
				case *types.Var:
					if !byAddr || conv != nil {
						c.Ob("T1-bind", base+"."+k, kv, false, "variable bound by value: interpreted code would see a copy, not the variable")
						continue
					}
				case *types.Func:
					if byAddr || conv != nil {
						c.Ob("T1-bind", base+"."+k, kv, false, "function bound through address or conversion")
						continue
					}
				case *types.Const:
					if byAddr {
						c.Ob("T1-bind", base+"."+k, kv, false, "constant bound by address")
						continue
					}
					constBinds[k] = o
					if conv != nil {
						tv := info.Types[conv]
						if tv.Value == nil || !constant.Compare(constant.ToFloat(tv.Value), token.EQL, constant.ToFloat(o.Val())) && o.Val().Kind() != constant.String {
							c.Ob("T1-bind", base+"."+k, kv, false, fmt.Sprintf("conversion %s changes the constant's value", exprString(conv)))
							continue
						}
						bt, _ := o.Type().Underlying().(*types.Basic)
						if bt != nil && bt.Info()&types.IsUntyped == 0 && !types.Identical(tv.Type, o.Type()) {
							c.Ob("T1-bind", base+"."+k, kv, false, fmt.Sprintf("typed constant of type %s bound with type %s", o.Type(), tv.Type))
							continue
						}
					}
				default:
					c.Ob("T1-bind", base+"."+k, kv, false, fmt.Sprintf("bound object is a %T", obj))
					continue
				}
				c.Ob("T1-bind", base+"."+k, kv, true, fmt.Sprintf("%s resolves to %s.%s", exprString(kv.Value), obj.Pkg().Path(), obj.Name()))
			}
		}
		if cl := t.field["Types"]; cl != nil {
			for _, e := range cl.Elts {
				kv := e.(*ast.KeyValueExpr)
				k, ok := strKey(info, kv.Key)
				if !ok {
					c.Ob("T2-type", base+".?", kv, false, "non-constant key")
					continue
				}
				nt++
				tn := typeOfNilPtrElem(info, kv.Value)
				if tn == nil {
					c.Ob("T2-type", base+"."+k, kv, false, "unrecognised type shape "+exprString(kv.Value))
					continue
				}
				if !checkObj("T2-type", k, kv, tn) {
					continue
				}
				c.Ob("T2-type", base+"."+k, kv, true, "TypeOf((*P."+k+")(nil)).Elem()")
			}
		}
		if cl := t.field["Untypeds"]; cl != nil {
			for _, e := range cl.Elts {
				kv := e.(*ast.KeyValueExpr)
				k, ok := strKey(info, kv.Key)
				s, ok2 := strKey(info, kv.Value)
				if !ok || !ok2 {
					c.Ob("T3-untyped", base+".?", kv, false, "non-constant entry")
					continue
				}
				nu++
				var co *types.Const
				if b, ok := constBinds[k]; ok {
					co = b
				} else if tpkg != nil {
					co, _ = tpkg.Scope().Lookup(k).(*types.Const)
				}
				if co == nil {
					c.Ob("T3-untyped", base+"."+k, kv, false, "no constant "+k+" bound in this table")
					continue
				}
				kind, val, err := decodeUntyped(s)
				if err != nil {
					c.Ob("T3-untyped", base+"."+k, kv, false, err.Error())
					continue
				}
				bt, _ := co.Type().(*types.Basic)
				if bt == nil || bt.Info()&types.IsUntyped == 0 {
					c.Ob("T3-untyped", base+"."+k, kv, false, fmt.Sprintf("constant has type %s, not untyped", co.Type()))
					continue
				}
				want := untypedKindName(bt.Kind())
				if kind != want {
					c.Ob("T3-untyped", base+"."+k, kv, false, fmt.Sprintf("table says untyped %s, the constant is untyped %s", kind, want))
					continue
				}
				if !constEqual(val, co.Val()) {
					c.Ob("T3-untyped", base+"."+k, kv, false, fmt.Sprintf("table value %s differs from the constant's value %s", short(val.ExactString()), short(co.Val().ExactString())))
					continue
				}
				c.Ob("T3-untyped", base+"."+k, kv, true, short(s)+" == "+short(co.Val().ExactString()))
			}
			// every bound untyped constant must keep its untypedness
			have := map[string]bool{}
			for _, e := range cl.Elts {
				if k, ok := strKey(info, e.(*ast.KeyValueExpr).Key); ok {
					have[k] = true
				}
			}
			// A bound untyped constant without an Untypeds entry is imported as a typed constant of its default type.
			// The property speaks of the entries the tables have ("each untyped constant decodes to exactly the value
			// Go assigns it"), not of entries they lack, so this is counted in the evidence and gives no verdict.
			for k, co := range constBinds {
				if bt, _ := co.Type().(*types.Basic); bt != nil && bt.Info()&types.IsUntyped != 0 && !have[k] {
					untypedWithoutEntry++
				}
			}
		} else {
			for _, co := range constBinds {
				if bt, _ := co.Type().(*types.Basic); bt != nil && bt.Info()&types.IsUntyped != 0 {
					untypedWithoutEntry++
				}
			}
		}
		if cl := t.field["Proxies"]; cl != nil {
			for _, e := range cl.Elts {
				kv := e.(*ast.KeyValueExpr)
				k, ok := strKey(info, kv.Key)
				if !ok {
					continue
				}
				npx++
				checkProxy(c, t, base, k, kv, tpkg)
			}
		}
		if cl := t.field["Wrappers"]; cl != nil {
			for _, e := range cl.Elts {
				kv := e.(*ast.KeyValueExpr)
				k, ok := strKey(info, kv.Key)
				if !ok {
					continue
				}
				nw++
				var tn *types.TypeName
				if tpkg != nil {
					tn, _ = tpkg.Scope().Lookup(k).(*types.TypeName)
				}
				if tn == nil {
					c.Ob("T5-wrapper", base+"."+k, kv, false, "no such named type")
					continue
				}
				lst, _ := kv.Value.(*ast.CompositeLit)
				if lst == nil {
					c.Ob("T5-wrapper", base+"."+k, kv, false, "unrecognised list")
					continue
				}
				ms := types.NewMethodSet(types.NewPointer(tn.Type()))
				if types.IsInterface(tn.Type()) {
					ms = types.NewMethodSet(tn.Type())
				}
				for _, me := range lst.Elts {
					m, ok := strKey(info, me)
					if !ok {
						continue
					}
					sel := ms.Lookup(tn.Pkg(), m)
					key := base + "." + k + "." + m
					switch {
					case sel == nil:
						c.Ob("T5-wrapper", key, me, false, fmt.Sprintf("%s is not in the method set of %s (Go does not promote it: missing or ambiguous)", m, tn.Name()))
					case len(sel.Index()) < 2:
						c.Ob("T5-wrapper", key, me, false, fmt.Sprintf("%s is declared on %s itself, not promoted from an embedded field", m, tn.Name()))
					default:
						c.Ob("T5-wrapper", key, me, true, fmt.Sprintf("promoted, path length %d", len(sel.Index())))
					}
				}
			}
		}
		if t.name != nil {
			nm, ok := strKey(info, t.name)
			if ok && tpkg != nil {
				c.Ob("T6-name", base, t.name, nm == tpkg.Name(), fmt.Sprintf("Name %q vs package name %q", nm, tpkg.Name()))
			}
		}
	}
	c.Extra("import_tables", len(tabs))
	c.Extra("table_entries", map[string]int{"binds": nb, "types": nt, "untypeds": nu, "proxies": npx, "wrapper_lists": nw})
	c.Extra("untyped_constants_bound_without_untypeds_entry", untypedWithoutEntry)
}

func pathMatches(objPath, tablePath string) bool {
	if objPath == tablePath {
		return true
	}
	// vendored copies inside GOROOT
	return strings.HasSuffix(objPath, "/vendor/"+tablePath) || objPath == "vendor/"+tablePath
}

func short(s string) string {
	if len(s) > 60 {
		return s[:57] + "..."
	}
	return s
}

// typeOfNilPtrElem recognises TypeOf((*T)(nil)).Elem() and returns T's TypeName.
func typeOfNilPtrElem(info *types.Info, e ast.Expr) *types.TypeName {
	call, ok := unparen(e).(*ast.CallExpr)
	if !ok {
		return nil
	}
	recv, ok := isReflectMethod(info, call, "Elem")
	if !ok {
		return nil
	}
	inner, ok := unparen(recv).(*ast.CallExpr)
	if !ok || !isReflectFunc(info, inner, "TypeOf") || len(inner.Args) != 1 {
		return nil
	}
	conv, ok := unparen(inner.Args[0]).(*ast.CallExpr)
	if !ok || len(conv.Args) != 1 {
		return nil
	}
	if id := identOf(conv.Args[0]); id == nil || id.Name != "nil" {
		return nil
	}
	star, ok := unparen(conv.Fun).(*ast.StarExpr)
	if !ok {
		return nil
	}
	obj := objOfRef(info, star.X)
	tn, _ := obj.(*types.TypeName)
	return tn
}

func untypedKindName(k types.BasicKind) string {
	switch k {
	case types.UntypedBool:
		return "bool"
	case types.UntypedInt:
		return "int"
	case types.UntypedRune:
		return "rune"
	case types.UntypedFloat:
		return "float"
	case types.UntypedComplex:
		return "complex"
	case types.UntypedString:
		return "string"
	}
	return "nil"
}

// decodeUntyped is the checker's own reader of the `kind:value` syntax (it does not
// reuse base/untyped.Unmarshal: the repository's reader is itself under test in C32).
func decodeUntyped(s string) (string, constant.Value, error) {
	i := strings.IndexByte(s, ':')
	if i < 0 {
		return "", nil, fmt.Errorf("no kind tag in %q", short(s))
	}
	kind, rest := s[:i], s[i+1:]
	num := func(str string) (constant.Value, error) {
		if j := strings.IndexByte(str, '/'); j >= 0 {
			a := constant.MakeFromLiteral(str[:j], token.INT, 0)
			b := constant.MakeFromLiteral(str[j+1:], token.INT, 0)
			if a.Kind() == constant.Unknown || b.Kind() == constant.Unknown {
				return nil, fmt.Errorf("bad fraction %q", short(str))
			}
			return constant.BinaryOp(constant.ToFloat(a), token.QUO, constant.ToFloat(b)), nil
		}
		v := constant.MakeFromLiteral(str, token.FLOAT, 0)
		if v.Kind() == constant.Unknown {
			return nil, fmt.Errorf("bad number %q", short(str))
		}
		return v, nil
	}
	switch kind {
	case "bool":
		if rest != "true" && rest != "false" {
			return "", nil, fmt.Errorf("bad bool %q", rest)
		}
		return kind, constant.MakeBool(rest == "true"), nil
	case "int", "rune":
		v := constant.MakeFromLiteral(rest, token.INT, 0)
		if v.Kind() == constant.Unknown {
			return "", nil, fmt.Errorf("bad integer %q", short(rest))
		}
		return kind, v, nil
	case "float":
		v, err := num(rest)
		return kind, v, err
	case "complex":
		j := strings.IndexByte(rest, ':')
		if j < 0 {
			return "", nil, fmt.Errorf("complex without imaginary part")
		}
		re, err := num(rest[:j])
		if err != nil {
			return "", nil, err
		}
		im, err := num(rest[j+1:])
		if err != nil {
			return "", nil, err
		}
		return kind, constant.BinaryOp(constant.ToComplex(re), token.ADD, constant.MakeImag(im)), nil
	case "string":
		return kind, constant.MakeString(rest), nil
	}
	return "", nil, fmt.Errorf("unknown kind tag %q", kind)
}

func constEqual(a, b constant.Value) bool {
	if a.Kind() == constant.String || b.Kind() == constant.String || a.Kind() == constant.Bool || b.Kind() == constant.Bool {
		if a.Kind() != b.Kind() {
			return false
		}
		return constant.Compare(a, token.EQL, b)
	}
	return constant.Compare(constant.ToComplex(a), token.EQL, constant.ToComplex(b))
}

// checkProxy verifies the forwarding struct of one Proxies entry.
func checkProxy(c *Ctx, t importTable, base, k string, kv *ast.KeyValueExpr, tpkg *types.Package) {
	info := t.pk.TypesInfo
	key := base + "." + k
	ptn := typeOfNilPtrElem(info, kv.Value)
	if ptn == nil {
		c.Ob("T4-proxy", key, kv, false, "unrecognised proxy shape")
		return
	}
	st, ok := ptn.Type().Underlying().(*types.Struct)
	if !ok || st.NumFields() == 0 || st.Field(0).Name() != "Object" || !isEmptyInterface(st.Field(0).Type()) {
		c.Ob("T4-proxy", key, kv, false, "proxy is not a struct whose first field is Object interface{}")
		return
	}
	var itn *types.TypeName
	if tpkg != nil {
		itn, _ = tpkg.Scope().Lookup(k).(*types.TypeName)
	}
	if itn == nil {
		// table without binds: find by imported package name
		for _, imp := range t.pk.Types.Imports() {
			if pathMatches(imp.Path(), t.path) {
				itn, _ = imp.Scope().Lookup(k).(*types.TypeName)
			}
		}
		if t.pk.PkgPath == t.path {
			itn, _ = t.pk.Types.Scope().Lookup(k).(*types.TypeName)
		}
	}
	if itn == nil {
		c.Ob("T4-proxy", key, kv, false, "no interface named "+k+" in "+t.path)
		return
	}
	iface, ok := itn.Type().Underlying().(*types.Interface)
	if !ok {
		c.Ob("T4-proxy", key, kv, false, k+" is not an interface")
		return
	}
	fields := map[string]*types.Var{}
	for i := 1; i < st.NumFields(); i++ {
		fields[st.Field(i).Name()] = st.Field(i)
	}
	// the proxy must implement the interface (types), and each method must forward
	if !types.Implements(types.NewPointer(ptn.Type()), iface) {
		// unexported interface methods make this impossible; report
		c.Ob("T4-proxy", key, kv, false, fmt.Sprintf("*%s does not implement %s.%s", ptn.Name(), t.path, k))
		return
	}
	c.Ob("T4-proxy", key, kv, true, fmt.Sprintf("*%s implements %s.%s (%d methods)", ptn.Name(), t.path, k, iface.NumMethods()))
	// Comp.converterToProxy fills the struct by position: field i+1 receives method i of the interface in reflect's
	// order (sorted by name), so the fields after Object must be declared in exactly that order
	{
		var mnames []string
		for i := 0; i < iface.NumMethods(); i++ {
			mnames = append(mnames, iface.Method(i).Name())
		}
		sort.Strings(mnames)
		okOrder := st.NumFields() == len(mnames)+1
		for i, mn := range mnames {
			if i+1 < st.NumFields() && st.Field(i+1).Name() != mn+"_" {
				okOrder = false
			}
		}
		c.Ob("T4-proxy-order", key, kv, okOrder, "the fields after Object are the interface's methods in sorted order, one each: the converter fills field i+1 with method i")
	}
	for i := 0; i < iface.NumMethods(); i++ {
		m := iface.Method(i)
		mkey := key + "." + m.Name()
		f := fields[m.Name()+"_"]
		if f == nil {
			c.Ob("T4-proxy-forward", mkey, kv, false, "no field "+m.Name()+"_")
			continue
		}
		fsig, _ := f.Type().(*types.Signature)
		msig := m.Type().(*types.Signature)
		if fsig == nil || fsig.Params().Len() != msig.Params().Len()+1 || !isEmptyInterface(fsig.Params().At(0).Type()) ||
			fsig.Variadic() != msig.Variadic() || !types.Identical(fsig.Results(), msig.Results()) {
			c.Ob("T4-proxy-forward", mkey, kv, false, fmt.Sprintf("field %s_ has signature %s, method is %s", m.Name(), f.Type(), msig))
			continue
		}
		okp := true
		for j := 0; j < msig.Params().Len(); j++ {
			if !types.Identical(fsig.Params().At(j+1).Type(), msig.Params().At(j).Type()) {
				okp = false
			}
		}
		if !okp {
			c.Ob("T4-proxy-forward", mkey, kv, false, "parameter types differ")
			continue
		}
		// body: return P.M_(P.Object, params...)
		fd := c.P.Func(shortPkg(t.pk.PkgPath) + "." + ptn.Name() + "." + m.Name())
		if fd == nil || fd.Body == nil {
			c.Ob("T4-proxy-forward", mkey, kv, false, "method declaration not found")
			continue
		}
		if msg := proxyBodyForwards(info, fd, m.Name()+"_", msig); msg != "" {
			c.Ob("T4-proxy-forward", mkey, fd, false, msg)
			continue
		}
		c.Ob("T4-proxy-forward", mkey, fd, true, "return P."+m.Name()+"_(P.Object, params...)")
	}
}

func isEmptyInterface(t types.Type) bool {
	i, ok := t.Underlying().(*types.Interface)
	return ok && i.NumMethods() == 0 && !isNamedNonEmpty(t)
}

func isNamedNonEmpty(t types.Type) bool { return false }

func proxyBodyForwards(info *types.Info, fd *ast.FuncDecl, field string, msig *types.Signature) string {
	if len(fd.Body.List) != 1 {
		return fmt.Sprintf("body has %d statements, expected one forwarding call", len(fd.Body.List))
	}
	var call *ast.CallExpr
	switch s := fd.Body.List[0].(type) {
	case *ast.ReturnStmt:
		if len(s.Results) != 1 {
			return "return does not forward one call"
		}
		call, _ = unparen(s.Results[0]).(*ast.CallExpr)
		if msig.Results().Len() == 0 {
			return "returns a value from a void method"
		}
	case *ast.ExprStmt:
		call, _ = unparen(s.X).(*ast.CallExpr)
		if msig.Results().Len() != 0 {
			return "results of the forwarded call are dropped"
		}
	}
	if call == nil {
		return "body is not a forwarding call"
	}
	if fd.Recv == nil || len(fd.Recv.List) != 1 || len(fd.Recv.List[0].Names) != 1 {
		return "unnamed receiver"
	}
	recvObj := info.Defs[fd.Recv.List[0].Names[0]]
	sel, ok := unparen(call.Fun).(*ast.SelectorExpr)
	if !ok || sel.Sel.Name != field || info.Uses[identOf(sel.X)] != recvObj || recvObj == nil {
		return "call target is " + exprString(call.Fun) + ", expected receiver." + field
	}
	// parameters in order
	var params []types.Object
	for _, f := range fd.Type.Params.List {
		for _, n := range f.Names {
			params = append(params, info.Defs[n])
		}
	}
	if len(call.Args) != len(params)+1 {
		return fmt.Sprintf("forwards %d arguments, expected %d", len(call.Args), len(params)+1)
	}
	a0, ok := unparen(call.Args[0]).(*ast.SelectorExpr)
	if !ok || a0.Sel.Name != "Object" || info.Uses[identOf(a0.X)] != recvObj {
		return "first argument is " + exprString(call.Args[0]) + ", expected receiver.Object"
	}
	for i, p := range params {
		id := identOf(call.Args[i+1])
		if id == nil || info.Uses[id] != p {
			return "argument " + strconv.Itoa(i+1) + " is " + exprString(call.Args[i+1]) + ", expected parameter " + p.Name()
		}
	}
	if msig.Variadic() != call.Ellipsis.IsValid() {
		return "variadic parameter is not forwarded with ..."
	}
	return ""
}
