package main

// Executor / runtime-state rules shared by C07, C10, C12, C13, C33 (E2 flow, E3 ownership, E6 correspondence).

import (
	"fmt"
	"go/ast"
	"go/token"
	"go/types"
	"sort"
	"strings"
)

// fieldSel reports whether e selects field `field` (resolved through types) and returns the base expression.
func fieldSel(info *types.Info, e ast.Expr, field string) (ast.Expr, bool) {
	sel, ok := unparen(e).(*ast.SelectorExpr)
	if !ok || sel.Sel.Name != field {
		return nil, false
	}
	s := info.Selections[sel]
	if s == nil || s.Kind() != types.FieldVal {
		return nil, false
	}
	return sel.X, true
}

// selPath prints a.b.c selector chains.
func selPath(e ast.Expr) string { return exprString(unparen(e)) }

// ---------------------------------------------------------------- X1 lock set

func ruleLockSet(c *Ctx, short, typeName, field, lockField, rule string) {
	n := 0
	for _, pk := range c.P.All {
		if !strings.HasPrefix(pk.PkgPath, modPath) {
			continue
		}
		info := pk.TypesInfo
		for _, f := range pk.Syntax {
			for _, d := range f.Decls {
				fd, ok := d.(*ast.FuncDecl)
				if !ok || fd.Body == nil {
					continue
				}
				fkey := funcKey(pk, fd)
				ast.Inspect(fd.Body, func(nd ast.Node) bool {
					blk, ok := nd.(*ast.BlockStmt)
					if !ok {
						return true
					}
					for i, st := range blk.List {
						// accesses directly in this statement (not in nested blocks of it)
						var acc []*ast.SelectorExpr
						ast.Inspect(st, func(m ast.Node) bool {
							if _, isBlk := m.(*ast.BlockStmt); isBlk && m != ast.Node(st) {
								return false
							}
							if sel, ok := m.(*ast.SelectorExpr); ok && sel.Sel.Name == field {
								if s := info.Selections[sel]; s != nil && s.Kind() == types.FieldVal {
									if fv, ok := s.Obj().(*types.Var); ok && fieldBelongsTo(fv, short, typeName) {
										acc = append(acc, sel)
									}
								}
							}
							return true
						})
						for _, sel := range acc {
							n++
							base := selPath(sel.X)
							locked, unlocked := false, false
							for j := 0; j < i; j++ {
								if isLockCall(info, blk.List[j], base, lockField, "Lock") {
									locked = true
								}
								if isLockCall(info, blk.List[j], base, lockField, "Unlock") {
									locked = false
								}
								if ds, ok := blk.List[j].(*ast.DeferStmt); ok && isLockCallExpr(info, ds.Call, base, lockField, "Unlock") {
									unlocked = true
								}
							}
							for j := i + 1; j < len(blk.List); j++ {
								if isLockCall(info, blk.List[j], base, lockField, "Unlock") {
									unlocked = true
									break
								}
								if _, isRet := blk.List[j].(*ast.ReturnStmt); isRet {
									break
								}
							}
							c.Ob(rule, fmt.Sprintf("%s/%s.%s", fkey, base, field), sel, locked && unlocked,
								fmt.Sprintf("%s.%s is accessed between %s.%s.Lock() and Unlock() in the same block", base, field, base, lockField))
						}
					}
					return true
				})
				// composite literal initialisation is not an access of a shared object
			}
		}
	}
	if n == 0 {
		c.Ob(rule, short+"."+typeName+"."+field, nil, false, "no access found: anchor missing")
	}
}

func isLockCall(info *types.Info, st ast.Stmt, base, lockField, method string) bool {
	es, ok := st.(*ast.ExprStmt)
	if !ok {
		return false
	}
	call, ok := es.X.(*ast.CallExpr)
	return ok && isLockCallExpr(info, call, base, lockField, method)
}

func isLockCallExpr(info *types.Info, call *ast.CallExpr, base, lockField, method string) bool {
	sel, ok := unparen(call.Fun).(*ast.SelectorExpr)
	if !ok || sel.Sel.Name != method {
		return false
	}
	return selPath(sel.X) == base+"."+lockField
}

// ---------------------------------------------------------------- X2 spin lock

func ruleSpinLock(c *Ctx, rule string) {
	pk := c.P.Pkg("atomic")
	if pk == nil {
		c.Fatal("package atomic not loaded")
		return
	}
	info := pk.TypesInfo
	lock := c.P.Func("atomic.SpinLock.Lock")
	unlock := c.P.Func("atomic.SpinLock.Unlock")
	if lock == nil || unlock == nil {
		c.Ob(rule, "atomic.SpinLock", nil, false, "anchor functions not found")
		return
	}
	isCAS := func(e ast.Expr) bool {
		call, ok := unparen(e).(*ast.CallExpr)
		if !ok || funcFullName(calleeOf(info, call)) != "sync/atomic.CompareAndSwapInt32" || len(call.Args) != 3 {
			return false
		}
		o, ok1 := constInt(info, call.Args[1])
		nv, ok2 := constInt(info, call.Args[2])
		return ok1 && ok2 && o == 0 && nv == 1
	}
	// no blind store in Lock
	blind := false
	inspectCalls(lock.Body, func(call *ast.CallExpr) {
		n := funcFullName(calleeOf(info, call))
		if strings.HasPrefix(n, "sync/atomic.Store") || strings.HasPrefix(n, "sync/atomic.Add") || strings.HasPrefix(n, "sync/atomic.Swap") {
			blind = true
		}
	})
	ast.Inspect(lock.Body, func(n ast.Node) bool {
		if as, ok := n.(*ast.AssignStmt); ok {
			for _, l := range as.Lhs {
				if _, isStar := unparen(l).(*ast.StarExpr); isStar {
					blind = true
				}
			}
		}
		return true
	})
	// every return is under a successful CAS; the function ends with `for !CAS {...}`
	retOK := true
	ast.Inspect(lock.Body, func(n ast.Node) bool {
		r, ok := n.(*ast.ReturnStmt)
		if !ok {
			return true
		}
		under := false
		ast.Inspect(lock.Body, func(m ast.Node) bool {
			if ifs, ok := m.(*ast.IfStmt); ok && containsNode(ifs.Body, r) && isCAS(ifs.Cond) {
				under = true
			}
			return true
		})
		if !under {
			retOK = false
		}
		return true
	})
	endOK := false
	if nst := len(lock.Body.List); nst > 0 {
		if fs, ok := lock.Body.List[nst-1].(*ast.ForStmt); ok && fs.Init == nil && fs.Post == nil {
			if u, ok := unparen(fs.Cond).(*ast.UnaryExpr); ok && u.Op == token.NOT && isCAS(u.X) {
				endOK = true
			}
		}
	}
	c.Ob(rule, "atomic.SpinLock.Lock", lock, !blind && retOK && endOK, "Lock returns only after a successful CompareAndSwapInt32(s, 0, 1) (no blind store, every return under a CAS, final wait loop exits on CAS)")
	// Unlock stores 0
	unOK := false
	inspectCalls(unlock.Body, func(call *ast.CallExpr) {
		if funcFullName(calleeOf(info, call)) == "sync/atomic.StoreInt32" && len(call.Args) == 2 {
			if v, ok := constInt(info, call.Args[1]); ok && v == 0 {
				unOK = true
			}
		}
	})
	c.Ob(rule, "atomic.SpinLock.Unlock", unlock, unOK, "Unlock releases with an atomic store of 0")
}

// ---------------------------------------------------------------- X3 goroutine gate

func ruleGoidGate(c *Ctx, rule string) {
	pk := c.P.Pkg("fast")
	info := pk.TypesInfo
	fd := c.P.Func("fast.newEnv4Func")
	if fd == nil {
		c.Ob(rule, "fast.newEnv4Func", nil, false, "anchor function not found")
		return
	}
	di := buildDefIndex(info, fd)
	var gate *ast.IfStmt
	var runObj, goidObj types.Object
	for _, st := range fd.Body.List {
		ifs, ok := st.(*ast.IfStmt)
		if !ok {
			continue
		}
		b, ok := unparen(ifs.Cond).(*ast.BinaryExpr)
		if !ok || b.Op != token.NEQ {
			continue
		}
		base, ok1 := fieldSel(info, b.X, "goid")
		if !ok1 || identOf(base) == nil || identOf(b.Y) == nil {
			continue
		}
		// body: run = run.getRun4Goid(goid)
		for _, s2 := range ifs.Body.List {
			if as, ok := s2.(*ast.AssignStmt); ok && len(as.Lhs) == 1 && len(as.Rhs) == 1 && as.Tok == token.ASSIGN {
				if call, ok := unparen(as.Rhs[0]).(*ast.CallExpr); ok && funcFullName(calleeOf(info, call)) == "fast.Run.getRun4Goid" && len(call.Args) == 1 {
					if identOf(as.Lhs[0]) != nil && info.Uses[identOf(as.Lhs[0])] == info.Uses[identOf(base)] && info.Uses[identOf(call.Args[0])] == info.Uses[identOf(b.Y)] {
						gate = ifs
						runObj = info.Uses[identOf(base)]
						goidObj = info.Uses[identOf(b.Y)]
					}
				}
			}
		}
	}
	if gate == nil {
		c.Ob(rule, "fast.newEnv4Func/gate", fd, false, "`if run.goid != goid { run = run.getRun4Goid(goid) }` not found")
		return
	}
	// goid := gls.GoID() read in the same call
	okGoid := false
	if d := di.single(goidObj); d != nil {
		if call, ok := unparen(d).(*ast.CallExpr); ok && funcFullName(calleeOf(info, call)) == "gls.GoID" {
			okGoid = true
		}
	}
	c.Ob(rule, "fast.newEnv4Func/goid", gate, okGoid, "the goroutine id compared by the gate is gls.GoID() read in this very call")
	// every Pool / PoolSize access is on the gated variable and after the gate
	nacc, okAcc := 0, true
	ast.Inspect(fd.Body, func(n ast.Node) bool {
		for _, f := range []string{"Pool", "PoolSize"} {
			if e, ok := n.(ast.Expr); ok {
				if base, ok := fieldSel(info, e, f); ok {
					nacc++
					if identOf(base) == nil || info.Uses[identOf(base)] != runObj || e.Pos() < gate.End() {
						okAcc = false
					}
				}
			}
		}
		return true
	})
	c.Ob(rule, "fast.newEnv4Func/pool", gate, nacc > 0 && okAcc, "the frame pool is reached only through the record selected by the gate, after the gate")
	// the frame is tagged with the gated record and becomes the current frame of that record
	tagOK, currOK := false, false
	ast.Inspect(fd.Body, func(n ast.Node) bool {
		as, ok := n.(*ast.AssignStmt)
		if !ok || len(as.Lhs) != 1 || len(as.Rhs) != 1 {
			return true
		}
		if _, ok := fieldSel(info, as.Lhs[0], "Run"); ok && as.Pos() > gate.End() {
			tagOK = identOf(as.Rhs[0]) != nil && info.Uses[identOf(as.Rhs[0])] == runObj
		}
		if base, ok := fieldSel(info, as.Lhs[0], "CurrEnv"); ok {
			if identOf(base) != nil && info.Uses[identOf(base)] == runObj {
				currOK = true
			}
		}
		return true
	})
	c.Ob(rule, "fast.newEnv4Func/frame-owner", gate, tagOK, "the new frame's Run is the record selected by the gate (not the declaring goroutine's)")
	c.Ob(rule, "fast.newEnv4Func/current-frame", gate, currOK, "the new frame becomes CurrEnv of the record selected by the gate")
	// getRun4Goid creates and stores a record when none is registered
	g4 := c.P.Func("fast.Run.getRun4Goid")
	okG := false
	if g4 != nil {
		created, stored := false, false
		inspectCalls(g4.Body, func(call *ast.CallExpr) {
			switch funcFullName(calleeOf(info, call)) {
			case "fast.Run.new":
				created = true
			case "fast.Run.glsStore":
				stored = true
			}
		})
		okG = created && stored
	}
	c.Ob(rule, "fast.Run.getRun4Goid", g4, okG, "a goroutine without a record gets a new one, registered before it is returned")
	// Comp.Go: the goroutine creates its own record with its own id, registers it and unregisters by defer;
	// the function value and arguments are evaluated before the go statement
	gofd := c.P.Func("fast.Comp.Go")
	if gofd == nil {
		c.Ob(rule, "fast.Comp.Go", nil, false, "anchor function not found")
		return
	}
	var goStmt *ast.GoStmt
	ast.Inspect(gofd.Body, func(n ast.Node) bool {
		if g, ok := n.(*ast.GoStmt); ok {
			goStmt = g
		}
		return true
	})
	if goStmt == nil {
		c.Ob(rule, "fast.Comp.Go/go", gofd, false, "go statement not found")
		return
	}
	lit, _ := goStmt.Call.Fun.(*ast.FuncLit)
	newOK, storeOK, delOK, evalInside := false, false, false, false
	var recObj types.Object
	recvIs := func(call *ast.CallExpr, o types.Object) bool {
		sel, ok := unparen(call.Fun).(*ast.SelectorExpr)
		return ok && identOf(sel.X) != nil && o != nil && info.Uses[identOf(sel.X)] == o
	}
	if lit != nil {
		// the record created in the goroutine
		ast.Inspect(lit.Body, func(n ast.Node) bool {
			if as, ok := n.(*ast.AssignStmt); ok && len(as.Lhs) == 1 && len(as.Rhs) == 1 && identOf(as.Lhs[0]) != nil {
				if call, ok := unparen(as.Rhs[0]).(*ast.CallExpr); ok && funcFullName(calleeOf(info, call)) == "fast.Run.new" {
					recObj = info.Defs[identOf(as.Lhs[0])]
				}
			}
			return true
		})
		ast.Inspect(lit.Body, func(n ast.Node) bool {
			switch x := n.(type) {
			case *ast.CallExpr:
				switch funcFullName(calleeOf(info, x)) {
				case "fast.Run.new":
					if len(x.Args) == 1 {
						if a, ok := unparen(x.Args[0]).(*ast.CallExpr); ok && funcFullName(calleeOf(info, a)) == "gls.GoID" {
							newOK = true
						}
					}
				case "fast.Run.glsStore":
					storeOK = recvIs(x, recObj)
				}
				// operand closures (func(*Env) ...) must not be called inside the goroutine
				if id := identOf(x.Fun); id != nil {
					if v, ok := info.Uses[id].(*types.Var); ok && isSigWithEnv(v.Type()) {
						evalInside = true
					}
				}
			case *ast.DeferStmt:
				if funcFullName(calleeOf(info, x.Call)) == "fast.Run.glsDel" {
					delOK = recvIs(x.Call, recObj)
				}
			}
			return true
		})
		// the frame the call runs on is tagged with that record
		tagged := false
		ast.Inspect(lit.Body, func(n ast.Node) bool {
			if as, ok := n.(*ast.AssignStmt); ok && len(as.Lhs) == 1 && len(as.Rhs) == 1 {
				if _, ok := fieldSel(info, as.Lhs[0], "Run"); ok && identOf(as.Rhs[0]) != nil && info.Uses[identOf(as.Rhs[0])] == recObj && recObj != nil {
					tagged = true
				}
			}
			return true
		})
		newOK = newOK && tagged
	}
	c.Ob(rule, "fast.Comp.Go/record", goStmt, newOK && storeOK && delOK, "the new goroutine creates its record with its own gls.GoID(), tags its frame with it, registers that same record, and unregisters it with defer")
	c.Ob(rule, "fast.Comp.Go/eager-operands", goStmt, lit != nil && !evalInside, "the function value and the arguments are evaluated in the caller's goroutine, before the go statement")
}

// ---------------------------------------------------------------- X4 recover guards

func ruleRecoverGuards(c *Ctx, rule string) {
	pk := c.P.Pkg("fast")
	info := pk.TypesInfo
	fd := c.P.Func("fast.callRecover")
	if fd == nil {
		c.Ob(rule, "fast.callRecover", nil, false, "anchor function not found")
		return
	}
	// consuming writes
	var firstConsume token.Pos
	consumed := map[string]bool{}
	for _, st := range fd.Body.List {
		if as, ok := st.(*ast.AssignStmt); ok && len(as.Lhs) == 1 && len(as.Rhs) == 1 {
			for _, f := range []string{"Panic", "PanicFun"} {
				if _, ok := fieldSel(info, as.Lhs[0], f); ok && identOf(as.Rhs[0]) != nil && identOf(as.Rhs[0]).Name == "nil" {
					consumed[f] = true
					if firstConsume == 0 {
						firstConsume = as.Pos()
					}
				}
			}
		}
	}
	c.Ob(rule, "fast.callRecover/consume", fd, consumed["Panic"] && consumed["PanicFun"], "a successful recover() consumes the panic (run.Panic = nil, run.PanicFun = nil)")
	// the value of run.Panic is read only after the guards
	var firstRead token.Pos
	ast.Inspect(fd.Body, func(n ast.Node) bool {
		if e, ok := n.(ast.Expr); ok {
			if _, ok := fieldSel(info, e, "Panic"); ok && firstRead == 0 {
				firstRead = e.Pos()
			}
		}
		return true
	})
	limit := firstConsume
	if firstRead != 0 && firstRead < limit {
		limit = firstRead
	}
	type guard struct {
		name  string
		match func(e ast.Expr) bool
	}
	guards := []guard{
		{"not-in-defer", func(e ast.Expr) bool {
			u, ok := e.(*ast.UnaryExpr)
			if !ok || u.Op != token.NOT {
				return false
			}
			call, ok := unparen(u.X).(*ast.CallExpr)
			return ok && funcFullName(calleeOf(info, call)) == "fast.ExecFlags.IsDefer"
		}},
		{"no-panic", func(e ast.Expr) bool {
			b, ok := e.(*ast.BinaryExpr)
			if !ok || b.Op != token.EQL {
				return false
			}
			_, okf := fieldSel(info, b.X, "PanicFun")
			return okf && identOf(b.Y) != nil && identOf(b.Y).Name == "nil"
		}},
		{"other-frame", func(e ast.Expr) bool {
			b, ok := e.(*ast.BinaryExpr)
			if !ok || b.Op != token.NEQ {
				return false
			}
			_, ok1 := fieldSel(info, b.X, "DeferOfFun")
			_, ok2 := fieldSel(info, b.Y, "PanicFun")
			_, ok3 := fieldSel(info, b.X, "PanicFun")
			_, ok4 := fieldSel(info, b.Y, "DeferOfFun")
			return ok1 && ok2 || ok3 && ok4
		}},
	}
	for _, g := range guards {
		found := false
		for _, st := range fd.Body.List {
			ifs, ok := st.(*ast.IfStmt)
			if !ok || ifs.Pos() > limit || !terminates(ifs.Body) {
				continue
			}
			// the guard must be a disjunct of the condition: `debug && guard` does not protect
			for _, a := range orAtoms(ifs.Cond) {
				if g.match(a) {
					// returns the nil interface
					found = true
				}
			}
		}
		c.Ob(rule, "fast.callRecover/guard/"+g.name, fd, found, "before the panic value is read or consumed, recover() returns nil when "+g.name+" (early return whose condition has the test as a disjunct)")
	}
}

// ---------------------------------------------------------------- X5 rundefer / defer installation

func ruleDeferProtocol(c *Ctx, rule string) {
	pk := c.P.Pkg("fast")
	info := pk.TypesInfo
	fd := c.P.Func("fast.reExecWithFlags")
	if fd == nil {
		c.Ob(rule, "fast.reExecWithFlags", nil, false, "anchor function not found")
		return
	}
	// the rundefer closure
	var rd *ast.FuncLit
	var rdObj types.Object
	for _, st := range fd.Body.List {
		if as, ok := st.(*ast.AssignStmt); ok && len(as.Lhs) == 1 && len(as.Rhs) == 1 {
			if fl, ok := as.Rhs[0].(*ast.FuncLit); ok && identOf(as.Lhs[0]) != nil {
				hasPop := false
				ast.Inspect(fl, func(n ast.Node) bool {
					if ds, ok := n.(*ast.DeferStmt); ok && funcFullName(calleeOf(info, ds.Call)) == "fast.popDefer" {
						hasPop = true
					}
					return true
				})
				inspectCalls(fl.Body, func(call *ast.CallExpr) {
					if funcFullName(calleeOf(info, call)) == "fast.pushDefer" {
						hasPop = true
					}
				})
				if hasPop {
					rd = fl
					rdObj = info.Defs[identOf(as.Lhs[0])]
				}
			}
		}
	}
	if rd == nil {
		c.Ob(rule, "fast.reExecWithFlags/rundefer", fd, false, "the closure that runs an installed deferred function was not found")
		return
	}
	funParam := info.Defs[rd.Type.Params.List[0].Names[0]]
	// defer popDefer(pushDefer(...)) strictly before fun()
	var deferPos, callPos token.Pos
	repanicGuarded, repanic := false, false
	for _, st := range rd.Body.List {
		switch x := st.(type) {
		case *ast.DeferStmt:
			if funcFullName(calleeOf(info, x.Call)) == "fast.popDefer" && len(x.Call.Args) == 1 {
				if inner, ok := unparen(x.Call.Args[0]).(*ast.CallExpr); ok && funcFullName(calleeOf(info, inner)) == "fast.pushDefer" {
					deferPos = x.Pos()
				}
			}
		case *ast.ExprStmt:
			if call, ok := x.X.(*ast.CallExpr); ok && identOf(call.Fun) != nil && info.Uses[identOf(call.Fun)] == funParam {
				callPos = x.Pos()
			}
		}
	}
	ast.Inspect(rd.Body, func(n ast.Node) bool {
		if call, ok := n.(*ast.CallExpr); ok && funcFullName(calleeOf(info, call)) == "fast.maybeRepanic" {
			repanic = true
			ast.Inspect(rd.Body, func(m ast.Node) bool {
				if ifs, ok := m.(*ast.IfStmt); ok && containsNode(ifs.Body, call) && identOf(ifs.Cond) != nil {
					repanicGuarded = true
				}
				return true
			})
		}
		return true
	})
	c.Ob(rule, "fast.reExecWithFlags/rundefer/push-pop", rd, deferPos != 0 && callPos > deferPos, "the deferred function runs between pushDefer and a popDefer registered with Go's defer (so the recover bookkeeping is rolled back even if it panics)")
	c.Ob(rule, "fast.reExecWithFlags/rundefer/repanic", rd, repanic && repanicGuarded && callPos != 0, "the saved panic is re-raised through maybeRepanic only while this frame is panicking (`if panicking`), after the deferred function returned")
	// maybeRepanic panics only when PanicFun != nil
	mr := c.P.Func("fast.maybeRepanic")
	okMR := false
	if mr != nil {
		ast.Inspect(mr.Body, func(n ast.Node) bool {
			if ifs, ok := n.(*ast.IfStmt); ok {
				if b, ok := unparen(ifs.Cond).(*ast.BinaryExpr); ok && b.Op == token.NEQ {
					if _, ok := fieldSel(info, b.X, "PanicFun"); ok && identOf(b.Y) != nil && identOf(b.Y).Name == "nil" {
						inspectCalls(ifs.Body, func(call *ast.CallExpr) {
							if id := identOf(call.Fun); id != nil && id.Name == "panic" && len(call.Args) == 1 {
								if _, ok := fieldSel(info, call.Args[0], "Panic"); ok {
									okMR = true
								}
							}
						})
					}
				}
			}
			return true
		})
	}
	c.Ob(rule, "fast.maybeRepanic", mr, okMR, "maybeRepanic re-raises run.Panic only while PanicFun != nil (not after a successful recover)")
	// every installed function is registered with Go's defer: in each `for run.Signals.Sync == SigDefer` loop
	nloops := 0
	ast.Inspect(fd.Body, func(n ast.Node) bool {
		fs, ok := n.(*ast.ForStmt)
		if !ok || fs.Cond == nil {
			return true
		}
		b, ok := unparen(fs.Cond).(*ast.BinaryExpr)
		if !ok || b.Op != token.EQL || objQName(usedObj(info, b.Y)) != "base.SigDefer" {
			return true
		}
		nloops++
		var funObj types.Object
		reset, deferred, cleared := false, false, false
		for _, st := range fs.Body.List {
			switch x := st.(type) {
			case *ast.AssignStmt:
				if len(x.Lhs) == 1 && len(x.Rhs) == 1 {
					if _, ok := fieldSel(info, x.Rhs[0], "InstallDefer"); ok && identOf(x.Lhs[0]) != nil {
						funObj = info.Defs[identOf(x.Lhs[0])]
					}
					if _, ok := fieldSel(info, x.Lhs[0], "InstallDefer"); ok && identOf(x.Rhs[0]) != nil && identOf(x.Rhs[0]).Name == "nil" {
						reset = true
					}
					if _, ok := fieldSel(info, x.Lhs[0], "Sync"); ok && objQName(usedObj(info, x.Rhs[0])) == "base.SigNone" {
						cleared = true
					}
				}
			case *ast.DeferStmt:
				if identOf(x.Call.Fun) != nil && info.Uses[identOf(x.Call.Fun)] == rdObj && len(x.Call.Args) == 1 && identOf(x.Call.Args[0]) != nil && info.Uses[identOf(x.Call.Args[0])] == funObj && funObj != nil {
					deferred = true
				}
			}
		}
		c.Ob(rule, fmt.Sprintf("fast.reExecWithFlags/install%d", nloops), fs, reset && deferred && cleared, "each installed function is taken from run.InstallDefer exactly once (slot cleared, signal cleared) and registered with Go's defer, so LIFO order and execution on panic are Go's own")
		return true
	})
	if nloops < 2 {
		c.Ob(rule, "fast.reExecWithFlags/install", fd, false, "fewer than two SigDefer installation loops found: anchor missing")
	}
	// the single-step loop executes statements too: a SigDefer raised by a stepped `defer` statement must be
	// forwarded to an installation loop (goto a label that precedes one), not treated like SigReturn or dropped
	var installPos []token.Pos
	ast.Inspect(fd.Body, func(n ast.Node) bool {
		if fs, ok := n.(*ast.ForStmt); ok && fs.Cond != nil {
			if b, ok := unparen(fs.Cond).(*ast.BinaryExpr); ok && b.Op == token.EQL && objQName(usedObj(info, b.Y)) == "base.SigDefer" {
				installPos = append(installPos, fs.Pos())
			}
		}
		return true
	})
	labels := map[string]token.Pos{}
	ast.Inspect(fd.Body, func(n ast.Node) bool {
		if ls, ok := n.(*ast.LabeledStmt); ok {
			labels[ls.Label.Name] = ls.Pos()
		}
		return true
	})
	ndbg := 0
	ast.Inspect(fd.Body, func(n ast.Node) bool {
		fs, ok := n.(*ast.ForStmt)
		if !ok || fs.Cond == nil {
			return true
		}
		b, ok := unparen(fs.Cond).(*ast.BinaryExpr)
		if !ok || b.Op != token.NEQ {
			return true
		}
		if _, isDbg := fieldSel(info, b.X, "Debug"); !isDbg {
			return true
		}
		steps := false
		inspectCalls(fs.Body, func(call *ast.CallExpr) {
			if funcFullName(calleeOf(info, call)) == "fast.singleStep" {
				steps = true
			}
		})
		if !steps {
			return true
		}
		ndbg++
		di := buildDefIndex(info, fd)
		forwards := false
		ast.Inspect(fs.Body, func(m ast.Node) bool {
			ifs, ok := m.(*ast.IfStmt)
			if !ok || len(ifs.Body.List) != 1 {
				return true
			}
			br, ok := ifs.Body.List[0].(*ast.BranchStmt)
			if !ok || br.Tok != token.GOTO || br.Label == nil {
				return true
			}
			for _, a := range orAtoms(ifs.Cond) {
				be, ok := unparen(a).(*ast.BinaryExpr)
				if !ok || be.Op != token.EQL || objQName(usedObj(info, be.Y)) != "base.SigDefer" {
					continue
				}
				isSync := false
				if _, ok := fieldSel(info, be.X, "Sync"); ok {
					isSync = true
				} else if id := identOf(be.X); id != nil {
					for _, d := range di.defs[info.Uses[id]] {
						if d != nil {
							if _, ok := fieldSel(info, d, "Sync"); ok {
								isSync = true
							}
						}
					}
				}
				if !isSync {
					continue
				}
				lp := labels[br.Label.Name]
				for _, ip := range installPos {
					if lp != token.NoPos && lp < ip && ip < fs.Pos() {
						forwards = true
					}
				}
			}
			return true
		})
		c.Ob(rule, "fast.reExecWithFlags/single-step-forwards-defer", fs, forwards, "a SigDefer raised while single-stepping is forwarded (goto) to a region that installs the deferred function")
		return true
	})
	if ndbg == 0 {
		c.Ob(rule, "fast.reExecWithFlags/single-step-forwards-defer", fd, false, "single-step loop not found: anchor missing")
	}
	// Comp.Defer: eager evaluation and copies
	df := c.P.Func("fast.Comp.Defer")
	if df == nil {
		c.Ob(rule, "fast.Comp.Defer", nil, false, "anchor function not found")
		return
	}
	var stmtLit *ast.FuncLit
	ast.Inspect(df.Body, func(n ast.Node) bool {
		if fl, ok := n.(*ast.FuncLit); ok && stmtLit == nil && isStmtSig(info.TypeOf(fl)) {
			stmtLit = fl
		}
		return true
	})
	if stmtLit == nil {
		c.Ob(rule, "fast.Comp.Defer/stmt", df, false, "statement closure not found")
		return
	}
	// operand closures captured by the statement closure
	evalCalls := []*ast.CallExpr{}
	inspectCalls(stmtLit.Body, func(call *ast.CallExpr) {
		if id := identOf(call.Fun); id != nil {
			if v, ok := info.Uses[id].(*types.Var); ok && isSigWithEnv(v.Type()) {
				evalCalls = append(evalCalls, call)
			}
		}
	})
	insideInstalled := false
	ninst := 0
	ast.Inspect(stmtLit.Body, func(n ast.Node) bool {
		as, ok := n.(*ast.AssignStmt)
		if !ok || len(as.Lhs) != 1 {
			return true
		}
		if _, ok := fieldSel(info, as.Lhs[0], "InstallDefer"); ok {
			if fl, ok := as.Rhs[0].(*ast.FuncLit); ok {
				ninst++
				for _, ec := range evalCalls {
					if containsNode(fl, ec) {
						insideInstalled = true
					}
				}
			}
		}
		return true
	})
	c.Ob(rule, "fast.Comp.Defer/eager", stmtLit, ninst > 0 && len(evalCalls) >= 2 && !insideInstalled, "the function value and the arguments of a defer statement are evaluated when the statement executes, never inside the installed closure")
	for i, ec := range evalCalls {
		c.Ob(rule, fmt.Sprintf("fast.Comp.Defer/copy%d", i+1), ec, copiedWhenSettable(info, stmtLit, ec), "the value "+exprString(ec)+" is copied when settable (CanSet -> Convert): later assignments to the variable must not change what the deferred call uses")
	}
	// WithDefers
	wd := false
	ast.Inspect(df.Body, func(n ast.Node) bool {
		if as, ok := n.(*ast.AssignStmt); ok && len(as.Lhs) == 1 {
			if _, ok := fieldSel(info, as.Lhs[0], "WithDefers"); ok && identOf(as.Rhs[0]) != nil && identOf(as.Rhs[0]).Name == "true" {
				wd = true
			}
		}
		return true
	})
	ex := c.P.Func("fast.Code.Exec")
	exOK := false
	if ex != nil {
		di := buildDefIndex(info, ex)
		ast.Inspect(ex.Body, func(n ast.Node) bool {
			if ifs, ok := n.(*ast.IfStmt); ok && identOf(ifs.Cond) != nil {
				if d := di.single(info.Uses[identOf(ifs.Cond)]); d != nil {
					if _, ok := fieldSel(info, d, "WithDefers"); ok {
						inspectCalls(ifs.Body, func(call *ast.CallExpr) {
							if funcFullName(calleeOf(info, call)) == "fast.execWithFlags" {
								exOK = true
							}
						})
					}
				}
			}
			return true
		})
	}
	c.Ob(rule, "fast.Comp.Defer/with-defers", df, wd && exOK, "code containing a defer statement is marked WithDefers and Code.Exec then selects the executor that honours deferred calls")
}

// ---------------------------------------------------------------- X6 save/restore correspondence

// pairSpec: pop(param i) restores field F; push must return at result i the value F had before push wrote it.
func ruleSaveRestore(c *Ctx, rule string) {
	pk := c.P.Pkg("fast")
	info := pk.TypesInfo
	push, pop := c.P.Func("fast.pushDefer"), c.P.Func("fast.popDefer")
	if push == nil || pop == nil {
		c.Ob(rule, "fast.pushDefer/popDefer", nil, false, "anchor functions not found")
	} else {
		// what does pop restore from each parameter?
		var pparams []types.Object
		for _, f := range pop.Type.Params.List {
			for _, nm := range f.Names {
				pparams = append(pparams, info.Defs[nm])
			}
		}
		restored := map[int]string{}
		ast.Inspect(pop.Body, func(n ast.Node) bool {
			switch x := n.(type) {
			case *ast.AssignStmt:
				if len(x.Lhs) == 1 && len(x.Rhs) == 1 && identOf(x.Rhs[0]) != nil {
					for i, p := range pparams {
						if info.Uses[identOf(x.Rhs[0])] == p {
							if sel, ok := unparen(x.Lhs[0]).(*ast.SelectorExpr); ok {
								restored[i] = sel.Sel.Name
							}
						}
					}
				}
			case *ast.CallExpr:
				if fn := calleeOf(info, x); fn != nil && strings.HasPrefix(fn.Name(), "Set") && len(x.Args) == 1 && identOf(x.Args[0]) != nil {
					for i, p := range pparams {
						if info.Uses[identOf(x.Args[0])] == p {
							restored[i] = "flag:" + strings.TrimPrefix(fn.Name(), "Set")
						}
					}
				}
			}
			return true
		})
		// push results
		var ret *ast.ReturnStmt
		ast.Inspect(push.Body, func(n ast.Node) bool {
			if r, ok := n.(*ast.ReturnStmt); ok {
				ret = r
			}
			return true
		})
		di := buildDefIndex(info, push)
		var idxs []int
		for i := range restored {
			idxs = append(idxs, i)
		}
		sort.Ints(idxs)
		for _, i := range idxs {
			what := restored[i]
			ok := false
			detail := ""
			if ret != nil && i < len(ret.Results) {
				res := unparen(ret.Results[i])
				if strings.HasPrefix(what, "flag:") {
					// result must be a read of the same flag: X.Is<Flag>()
					if call, isCall := res.(*ast.CallExpr); isCall {
						if fn := calleeOf(info, call); fn != nil && fn.Name() == "Is"+strings.TrimPrefix(what, "flag:") {
							ok = true
						}
					}
					detail = exprString(res)
				} else {
					// result must be a variable whose single definition reads field `what`, taken before the field is written
					if id := identOf(res); id != nil {
						o := info.Uses[id]
						var defExpr ast.Expr
						var defPos token.Pos
						ast.Inspect(push.Body, func(n ast.Node) bool {
							if as, isAs := n.(*ast.AssignStmt); isAs && len(as.Lhs) == 1 && len(as.Rhs) == 1 && identOf(as.Lhs[0]) != nil && info.Uses[identOf(as.Lhs[0])] == o {
								defExpr, defPos = as.Rhs[0], as.Pos()
							}
							return true
						})
						_ = di
						var writePos token.Pos
						ast.Inspect(push.Body, func(n ast.Node) bool {
							if as, isAs := n.(*ast.AssignStmt); isAs && len(as.Lhs) == 1 {
								if _, isF := fieldSel(info, as.Lhs[0], what); isF && writePos == 0 {
									writePos = as.Pos()
								}
							}
							return true
						})
						if defExpr != nil {
							if _, isF := fieldSel(info, defExpr, what); isF && (writePos == 0 || defPos < writePos) {
								ok = true
							}
						}
						detail = id.Name
					} else {
						detail = exprString(res)
					}
				}
			}
			c.Ob(rule, fmt.Sprintf("fast.pushDefer/result%d->%s", i, what), push, ok, fmt.Sprintf("popDefer restores %s from its parameter %d, so pushDefer must return at that position the value %s had before the push (returns %s)", what, i, what, detail))
		}
		if len(restored) < 2 {
			c.Ob(rule, "fast.popDefer", pop, false, "popDefer does not restore at least DeferOfFun and the defer flag: anchor missing")
		}
		// every flag pushDefer raises with a constant (SetX(true)) is lowered again by popDefer (SetX(false)): a flag
		// left set would make the next ordinary call look like the start of a deferred call
		nflags := 0
		inspectCalls(push.Body, func(call *ast.CallExpr) {
			fn := calleeOf(info, call)
			if fn == nil || !strings.HasPrefix(fn.Name(), "Set") || len(call.Args) != 1 {
				return
			}
			tv, ok := info.Types[call.Args[0]]
			if !ok || tv.Value == nil || tv.Value.String() != "true" {
				return
			}
			nflags++
			lowered := false
			inspectCalls(pop.Body, func(pc *ast.CallExpr) {
				if pfn := calleeOf(info, pc); pfn == fn && len(pc.Args) == 1 {
					if ptv, ok := info.Types[pc.Args[0]]; ok && ptv.Value != nil && ptv.Value.String() == "false" {
						lowered = true
					}
				}
			})
			c.Ob(rule, "fast.popDefer/lowers:"+strings.TrimPrefix(fn.Name(), "Set"), pop, lowered, "pushDefer raises the flag "+strings.TrimPrefix(fn.Name(), "Set")+" with the constant true: popDefer must lower it with the constant false")
		})
		if nflags == 0 {
			c.Ob(rule, "fast.pushDefer/raises", push, false, "pushDefer raises no flag with a constant: anchor missing")
		}
	}
	// defer restore(run, IsDefer(), run.Interrupt, caller) in reExecWithFlags, before the first write of those
	fd := c.P.Func("fast.reExecWithFlags")
	rs := c.P.Func("fast.restore")
	if fd == nil || rs == nil {
		c.Ob(rule, "fast.reExecWithFlags/restore", nil, false, "anchor functions not found")
		return
	}
	di := buildDefIndex(info, fd)
	var dcall *ast.CallExpr
	var dpos token.Pos
	for _, st := range fd.Body.List {
		if ds, ok := st.(*ast.DeferStmt); ok && funcFullName(calleeOf(info, ds.Call)) == "fast.restore" {
			dcall, dpos = ds.Call, ds.Pos()
		}
	}
	if dcall == nil || len(dcall.Args) != 4 {
		c.Ob(rule, "fast.reExecWithFlags/restore", fd, false, "`defer restore(run, isDefer, interrupt, caller)` not found at function level")
		return
	}
	// restore's writes per parameter
	var rparams []types.Object
	for _, f := range rs.Type.Params.List {
		for _, nm := range f.Names {
			rparams = append(rparams, info.Defs[nm])
		}
	}
	argOK := func(i int, field string, isFlag bool) bool {
		a := unparen(dcall.Args[i])
		if id := identOf(a); id != nil {
			if d := di.single(info.Uses[id]); d != nil {
				a = unparen(d)
			}
		}
		if isFlag {
			call, ok := a.(*ast.CallExpr)
			return ok && funcFullName(calleeOf(info, call)) == "fast.ExecFlags.IsDefer"
		}
		_, ok := fieldSel(info, a, field)
		return ok
	}
	c.Ob(rule, "fast.reExecWithFlags/restore/isDefer", dcall, argOK(1, "", true), "the defer flag saved for restore is ExecFlags.IsDefer() read at entry")
	c.Ob(rule, "fast.reExecWithFlags/restore/interrupt", dcall, argOK(2, "Interrupt", false), "the interrupt statement saved for restore is run.Interrupt read at entry")
	c.Ob(rule, "fast.reExecWithFlags/restore/caller", dcall, argOK(3, "CurrEnv", false), "the frame saved for restore is run.CurrEnv read at entry")
	// no write to those before the defer
	early := false
	ast.Inspect(fd.Body, func(n ast.Node) bool {
		if n == nil || n.Pos() >= dpos {
			return true
		}
		switch x := n.(type) {
		case *ast.AssignStmt:
			for _, l := range x.Lhs {
				for _, f := range []string{"Interrupt", "CurrEnv"} {
					if _, ok := fieldSel(info, l, f); ok {
						early = true
					}
				}
			}
		case *ast.CallExpr:
			if fn := calleeOf(info, x); fn != nil && (fn.Name() == "SetDefer" || fn.Name() == "SetStartDefer") {
				early = true
			}
		}
		return true
	})
	c.Ob(rule, "fast.reExecWithFlags/restore/first", dcall, !early, "restore is registered before the executor modifies the defer flag, the interrupt statement or the current frame")
	// restore itself writes each of them from the matching parameter
	wrote := map[string]bool{}
	ast.Inspect(rs.Body, func(n ast.Node) bool {
		switch x := n.(type) {
		case *ast.AssignStmt:
			if len(x.Lhs) == 1 && len(x.Rhs) == 1 {
				if _, ok := fieldSel(info, x.Lhs[0], "Interrupt"); ok && identOf(x.Rhs[0]) != nil && info.Uses[identOf(x.Rhs[0])] == rparams[2] {
					wrote["Interrupt"] = true
				}
				if _, ok := fieldSel(info, x.Lhs[0], "CurrEnv"); ok && identOf(x.Rhs[0]) != nil && info.Uses[identOf(x.Rhs[0])] == rparams[3] {
					wrote["CurrEnv"] = true
				}
				if _, ok := fieldSel(info, x.Lhs[0], "Sync"); ok && objQName(usedObj(info, x.Rhs[0])) == "base.SigNone" {
					wrote["Sync"] = true
				}
			}
		case *ast.CallExpr:
			if fn := calleeOf(info, x); fn != nil && fn.Name() == "SetDefer" && len(x.Args) == 1 && identOf(x.Args[0]) != nil && info.Uses[identOf(x.Args[0])] == rparams[1] {
				wrote["IsDefer"] = true
			}
		}
		return true
	})
	c.Ob(rule, "fast.restore", rs, wrote["Interrupt"] && wrote["CurrEnv"] && wrote["Sync"] && wrote["IsDefer"], fmt.Sprintf("restore writes the defer flag, Interrupt and CurrEnv from its matching parameters and clears the synchronous signal (%v)", sortedSet(wrote)))
	// RunExpr / DebugExpr: defer run.setCurrEnv(run.setCurrEnv(env))
	for _, fk := range []string{"fast.Interp.RunExpr", "fast.Interp.DebugExpr"} {
		f2 := c.P.Func(fk)
		if f2 == nil {
			c.Ob(rule, fk, nil, false, "anchor function not found")
			continue
		}
		ok := false
		ast.Inspect(f2.Body, func(n ast.Node) bool {
			if ds, isD := n.(*ast.DeferStmt); isD && funcFullName(calleeOf(info, ds.Call)) == "fast.Run.setCurrEnv" && len(ds.Call.Args) == 1 {
				if inner, isC := unparen(ds.Call.Args[0]).(*ast.CallExpr); isC && funcFullName(calleeOf(info, inner)) == "fast.Run.setCurrEnv" {
					ok = true
				}
			}
			return true
		})
		c.Ob(rule, fk, f2, ok, "the current frame is saved and restored around the evaluation with `defer run.setCurrEnv(run.setCurrEnv(env))`, also when the evaluation panics")
	}
	// entry points re-initialise the synchronous signal
	for _, fk := range []string{"fast.exec", "fast.execWithFlags"} {
		f2 := c.P.Func(fk)
		ok := false
		if f2 != nil {
			ast.Inspect(f2.Body, func(n ast.Node) bool {
				if fl, isL := n.(*ast.FuncLit); isL && len(fl.Body.List) > 0 {
					for _, st := range fl.Body.List[:min(3, len(fl.Body.List))] {
						if as, isA := st.(*ast.AssignStmt); isA && len(as.Lhs) == 1 {
							if _, isF := fieldSel(info, as.Lhs[0], "Sync"); isF && objQName(usedObj(info, as.Rhs[0])) == "base.SigNone" {
								ok = true
							}
						}
					}
					return false
				}
				return true
			})
		}
		c.Ob(rule, fk+"/sync-reset", f2, ok, "every executor entry clears a stale synchronous signal before dispatching statements")
	}
	pe := c.P.Func("fast.Interp.prepareEnv")
	clr := map[string]bool{}
	if pe != nil {
		ast.Inspect(pe.Body, func(n ast.Node) bool {
			if as, ok := n.(*ast.AssignStmt); ok && len(as.Lhs) == 1 && len(as.Rhs) == 1 && objQName(usedObj(info, as.Rhs[0])) == "base.SigNone" {
				for _, f := range []string{"Sync", "Async"} {
					if _, ok := fieldSel(info, as.Lhs[0], f); ok {
						clr[f] = true
					}
				}
			}
			return true
		})
	}
	c.Ob(rule, "fast.Interp.prepareEnv/signals", pe, clr["Sync"] && clr["Async"], "each evaluation starts with both signals cleared (an interrupt or panic of the previous evaluation cannot leak)")
}

func min(a, b int) int {
	if a < b {
		return a
	}
	return b
}

// ---------------------------------------------------------------- X7 interrupt polling

func ruleInterruptPolling(c *Ctx, rule string) {
	pk := c.P.Pkg("fast")
	info := pk.TypesInfo
	maxBurst := 0
	for _, fk := range []string{"fast.exec", "fast.reExecWithFlags"} {
		fd := c.P.Func(fk)
		if fd == nil {
			c.Ob(rule, fk, nil, false, "anchor function not found")
			continue
		}
		nl := 0
		ast.Inspect(fd.Body, func(n ast.Node) bool {
			fs, ok := n.(*ast.ForStmt)
			if !ok {
				return true
			}
			// dispatches directly in this loop (excluding nested loops, which are judged on their own)
			disp, polls := 0, 0
			// loops that continue only while the statement just executed installed a deferred call are
			// bounded by the program text, not by the data: they need no poll of their own
			if fs.Cond != nil {
				if b, ok := unparen(fs.Cond).(*ast.BinaryExpr); ok && b.Op == token.EQL && objQName(usedObj(info, b.Y)) == "base.SigDefer" {
					return true
				}
			}
			var walk func(m ast.Node)
			walk = func(m ast.Node) {
				ast.Inspect(m, func(k ast.Node) bool {
					if k == nil {
						return true
					}
					if inner, isFor := k.(*ast.ForStmt); isFor && inner != fs {
						return false
					}
					if _, isLit := k.(*ast.FuncLit); isLit {
						return false
					}
					switch x := k.(type) {
					case *ast.CallExpr:
						if id := identOf(x.Fun); id != nil {
							if v, ok := info.Uses[id].(*types.Var); ok && isNamedType(v.Type(), "fast", "Stmt") {
								disp++
							}
						}
						if fn := calleeOf(info, x); fn != nil && fn.Name() == "IsEmpty" && strings.HasSuffix(funcFullName(fn), "Signals.IsEmpty") {
							polls++
						}
					case *ast.SelectorExpr:
						// only a read of the asynchronous signal (or IsEmpty, which loads all signals) sees an interrupt
						if _, ok := fieldSel(info, x, "Async"); ok {
							polls++
						}
					}
					return true
				})
			}
			walk(fs.Body)
			if fs.Cond != nil {
				walk(fs.Cond)
			}
			if disp == 0 {
				return true
			}
			nl++
			if disp > maxBurst {
				maxBurst = disp
			}
			c.Ob(rule, fmt.Sprintf("%s/loop%d", fk, nl), fs, polls > 0 && disp <= 64, fmt.Sprintf("a dispatch loop runs %d statements per iteration and polls the asynchronous signal (Signals.IsEmpty or .Async) %d time(s) per iteration (bounded burst between two polls)", disp, polls))
			return true
		})
		if nl == 0 {
			c.Ob(rule, fk, fd, false, "no statement dispatch loop found: anchor missing")
		}
		// spinInterrupt installed before the unconditional loop
		okSpin := false
		for i, st := range []ast.Stmt{fd.Body} {
			_ = i
			ast.Inspect(st, func(n ast.Node) bool {
				blk, ok := n.(*ast.BlockStmt)
				if !ok {
					return true
				}
				for j, s2 := range blk.List {
					if fs, ok := s2.(*ast.ForStmt); ok && fs.Cond == nil && j > 0 {
						if as, ok := blk.List[j-1].(*ast.AssignStmt); ok && len(as.Lhs) == 1 {
							if _, ok := fieldSel(info, as.Lhs[0], "Interrupt"); ok && objQName(usedObj(info, as.Rhs[0])) == "fast.spinInterrupt" {
								okSpin = true
							}
						}
					}
				}
				return true
			})
		}
		if !okSpin {
			// the loops may sit directly in the function literal body
			ast.Inspect(fd.Body, func(n ast.Node) bool {
				if fl, ok := n.(*ast.FuncLit); ok {
					for j, s2 := range fl.Body.List {
						if fs, ok := s2.(*ast.ForStmt); ok && fs.Cond == nil && j > 0 {
							if as, ok := fl.Body.List[j-1].(*ast.AssignStmt); ok && len(as.Lhs) == 1 {
								if _, ok := fieldSel(info, as.Lhs[0], "Interrupt"); ok && objQName(usedObj(info, as.Rhs[0])) == "fast.spinInterrupt" {
									okSpin = true
								}
							}
						}
					}
				}
				return true
			})
		}
		c.Ob(rule, fk+"/spin-interrupt", fd, okSpin, "before the unbounded dispatch loop run.Interrupt is set to spinInterrupt, so statements that hand control to the interrupt trampoline come back to the poll")
	}
	c.Extra("max_statements_between_polls", maxBurst)
	// Signals.IsEmpty loads every signal at once
	if bpk := c.P.Pkg("base"); bpk != nil {
		ie := c.P.Func("base.Signals.IsEmpty")
		okIE := false
		if tn, ok := bpk.Types.Scope().Lookup("Signals").(*types.TypeName); ok && ie != nil {
			if st, ok := tn.Type().Underlying().(*types.Struct); ok && st.NumFields() <= 4 {
				small := true
				for i := 0; i < st.NumFields(); i++ {
					if b, ok := st.Field(i).Type().Underlying().(*types.Basic); !ok || (b.Kind() != types.Uint8 && b.Kind() != types.Int8) {
						small = false
					}
				}
				inspectCalls(ie.Body, func(call *ast.CallExpr) {
					if funcFullName(calleeOf(bpk.TypesInfo, call)) == "sync/atomic.LoadUint32" && small {
						okIE = true
					}
				})
			}
		}
		c.Ob(rule, "base.Signals.IsEmpty", ie, okIE, "IsEmpty atomically loads the whole 4-byte Signals struct, so it observes the asynchronous signal too")
	}
	// Interp.Interrupt -> Run.interrupt -> Signals.Async
	ii, ri := c.P.Func("fast.Interp.Interrupt"), c.P.Func("fast.Run.interrupt")
	okI, okR, okOpt := false, false, false
	if ii != nil {
		inspectCalls(ii.Body, func(call *ast.CallExpr) {
			if funcFullName(calleeOf(info, call)) == "fast.Run.interrupt" {
				okI = true
			}
		})
	}
	if ri != nil {
		ast.Inspect(ri.Body, func(n ast.Node) bool {
			switch x := n.(type) {
			case *ast.AssignStmt:
				if len(x.Lhs) == 1 {
					if _, ok := fieldSel(info, x.Lhs[0], "Async"); ok {
						okR = true
					}
				}
			case *ast.IfStmt:
				// SigDebug only when Options & both bits == both bits
				if b, ok := unparen(x.Cond).(*ast.BinaryExpr); ok && b.Op == token.EQL {
					if a, ok := unparen(b.X).(*ast.BinaryExpr); ok && a.Op == token.AND && exprString(a.Y) == exprString(b.Y) {
						thenTok, elseTok := "", ""
						for _, s2 := range x.Body.List {
							if as, ok := s2.(*ast.AssignStmt); ok {
								thenTok = objQName(usedObj(info, as.Rhs[0]))
							}
						}
						if blk, ok := x.Else.(*ast.BlockStmt); ok {
							for _, s2 := range blk.List {
								if as, ok := s2.(*ast.AssignStmt); ok {
									elseTok = objQName(usedObj(info, as.Rhs[0]))
								}
							}
						}
						okOpt = thenTok == "base.SigDebug" && elseTok == "base.SigInterrupt"
					}
				}
			}
			return true
		})
	}
	c.Ob(rule, "fast.Interp.Interrupt", ii, okI && okR, "Interp.Interrupt reaches a store to run.Signals.Async")
	c.Ob(rule, "fast.Run.interrupt/signal", ri, okOpt, "the signal is SigInterrupt unless both OptDebugger and OptCtrlCEnterDebugger are set")
	// applyAsyncSignal: clears Async, panics with SigInterrupt in the default arm
	aa := c.P.Func("fast.Run.applyAsyncSignal")
	okClear, okPanic := false, false
	if aa != nil {
		ast.Inspect(aa.Body, func(n ast.Node) bool {
			switch x := n.(type) {
			case *ast.AssignStmt:
				if len(x.Lhs) == 1 {
					if _, ok := fieldSel(info, x.Lhs[0], "Async"); ok && objQName(usedObj(info, x.Rhs[0])) == "base.SigNone" {
						okClear = true
					}
				}
			case *ast.CaseClause:
				if x.List == nil {
					inspectCalls(x, func(call *ast.CallExpr) {
						if id := identOf(call.Fun); id != nil && id.Name == "panic" && len(call.Args) == 1 && objQName(usedObj(info, call.Args[0])) == "base.SigInterrupt" {
							okPanic = true
						}
					})
				}
			}
			return true
		})
	}
	c.Ob(rule, "fast.Run.applyAsyncSignal", aa, okClear && okPanic, "a pending interrupt is consumed (Async cleared) and stops the running code by panicking with SigInterrupt")
	// restore re-raises a pending interrupt
	rs := c.P.Func("fast.restore")
	okRe := false
	if rs != nil {
		ast.Inspect(rs.Body, func(n ast.Node) bool {
			if ifs, ok := n.(*ast.IfStmt); ok {
				if b, ok := unparen(ifs.Cond).(*ast.BinaryExpr); ok && b.Op == token.EQL && objQName(usedObj(info, b.Y)) == "base.SigInterrupt" {
					inspectCalls(ifs.Body, func(call *ast.CallExpr) {
						if funcFullName(calleeOf(info, call)) == "fast.Run.applyAsyncSignal" {
							okRe = true
						}
					})
				}
			}
			return true
		})
	}
	c.Ob(rule, "fast.restore/pending-interrupt", rs, okRe, "an interrupt that arrives while a function body is being left is re-raised in the caller (restore applies a pending SigInterrupt)")
	// spinInterrupt handles async signals and returns run.Interrupt
	sp := c.P.Func("fast.spinInterrupt")
	okSp := false
	if sp != nil {
		apply := false
		inspectCalls(sp.Body, func(call *ast.CallExpr) {
			if funcFullName(calleeOf(info, call)) == "fast.Run.applyAsyncSignal" {
				apply = true
			}
		})
		ast.Inspect(sp.Body, func(n ast.Node) bool {
			if r, ok := n.(*ast.ReturnStmt); ok && len(r.Results) == 2 {
				if _, ok := fieldSel(info, r.Results[0], "Interrupt"); ok && apply {
					okSp = true
				}
			}
			return true
		})
	}
	c.Ob(rule, "fast.spinInterrupt", sp, okSp, "the interrupt trampoline applies a pending asynchronous signal and returns run.Interrupt")
}

// ruleOptionRestore (X8): option bits cleared for the duration of one forced evaluation (cmdOptForceEval) are restored by
// a deferred function registered before the evaluation starts, so that a panic escaping the evaluation does not leave
// the interpreter in another mode.
func ruleOptionRestore(c *Ctx, rule string) {
	n := 0
	for _, short := range []string{"fast", "classic"} {
		pk := c.P.Pkg(short)
		if pk == nil {
			continue
		}
		info := pk.TypesInfo
		for _, fd := range c.P.FuncsOf(short) {
			if fd.Body == nil {
				continue
			}
			fd := fd
			// (a) v := cmdOptForceEval(...)   (b) the bits are cleared in place: g.Options &^= todisable
			var cleared []struct {
				obj types.Object
				pos token.Pos
				txt string
			}
			ast.Inspect(fd.Body, func(nd ast.Node) bool {
				as, ok := nd.(*ast.AssignStmt)
				if !ok || len(as.Lhs) != 1 || len(as.Rhs) != 1 {
					return true
				}
				if call, ok := unparen(as.Rhs[0]).(*ast.CallExpr); ok && as.Tok == token.DEFINE {
					if fn := calleeOf(info, call); fn != nil && fn.Name() == "cmdOptForceEval" {
						if id := identOf(as.Lhs[0]); id != nil {
							cleared = append(cleared, struct {
								obj types.Object
								pos token.Pos
								txt string
							}{info.Defs[id], as.Pos(), id.Name})
						}
					}
				}
				if as.Tok == token.AND_NOT_ASSIGN {
					if _, isOpt := fieldSel(info, as.Lhs[0], "Options"); isOpt && fd.Name.Name != "cmdOptForceEval" {
						if id := identOf(as.Rhs[0]); id != nil {
							cleared = append(cleared, struct {
								obj types.Object
								pos token.Pos
								txt string
							}{info.Uses[id], as.Pos(), id.Name})
						}
					}
				}
				return true
			})
			for _, cl := range cleared {
				// only inside evaluation entry points (functions that parse/compile/run)
				work := token.NoPos
				inspectCalls(fd.Body, func(call *ast.CallExpr) {
					if fn := calleeOf(info, call); fn != nil && call.Pos() > cl.pos {
						switch fn.Name() {
						case "Parse", "ParseOnly", "CompileAst", "RunExpr", "classicEval", "fastEval", "Eval", "EvalAst":
							if work == token.NoPos || call.Pos() < work {
								work = call.Pos()
							}
						}
					}
				})
				if work == token.NoPos {
					continue
				}
				n++
				restored := false
				ast.Inspect(fd.Body, func(nd ast.Node) bool {
					ds, ok := nd.(*ast.DeferStmt)
					if !ok || ds.Pos() < cl.pos || ds.Pos() > work {
						return true
					}
					lit, ok := ds.Call.Fun.(*ast.FuncLit)
					if !ok {
						return true
					}
					// unconditionally: a top-level statement of the deferred function
					for _, st := range lit.Body.List {
						if as, ok := st.(*ast.AssignStmt); ok && as.Tok == token.OR_ASSIGN && len(as.Lhs) == 1 {
							if _, isOpt := fieldSel(info, as.Lhs[0], "Options"); isOpt && identOf(as.Rhs[0]) != nil && info.Uses[identOf(as.Rhs[0])] == cl.obj {
								restored = true
							}
						}
					}
					return true
				})
				c.Ob(rule, funcKey(pk, fd)+"/"+cl.txt, fd, restored, "option bits cleared for one forced evaluation are set again by a deferred function registered before the evaluation: a panic does not leave the interpreter in another mode")
			}
		}
	}
	if n == 0 {
		c.Ob(rule, "forced-evaluation", nil, false, "no temporary option change around an evaluation found: anchor missing")
	}
}

// X7c — an asynchronous signal is consumed before it is acted upon. applyAsyncSignal turns a pending interrupt into
// a panic; deferred interpreted functions run while that panic unwinds and poll the same field at their entry, so a
// signal still pending during the unwinding would abort every one of them. Decided: the statement that clears
// Signals.Async is at the top level of applyAsyncSignal and precedes every panic and every call in it.
func ruleConsumeBeforeRaise(c *Ctx, rule string) {
	pk := c.P.Pkg("fast")
	info := pk.TypesInfo
	fd := c.P.Func("fast.Run.applyAsyncSignal")
	if fd == nil || fd.Body == nil {
		c.Ob(rule, "fast.Run.applyAsyncSignal", nil, false, "anchor function not found")
		return
	}
	var clearPos token.Pos
	for _, st := range fd.Body.List {
		as, ok := st.(*ast.AssignStmt)
		if !ok || len(as.Lhs) != 1 || len(as.Rhs) != 1 {
			continue
		}
		if _, isF := fieldSel(info, as.Lhs[0], "Async"); isF && objQName(usedObj(info, as.Rhs[0])) == "base.SigNone" && clearPos == token.NoPos {
			clearPos = as.Pos()
		}
	}
	var firstAct token.Pos
	inspectCalls(fd.Body, func(call *ast.CallExpr) {
		if firstAct == token.NoPos || call.Pos() < firstAct {
			firstAct = call.Pos()
		}
	})
	c.Ob(rule, "fast.Run.applyAsyncSignal", fd, clearPos != token.NoPos && (firstAct == token.NoPos || clearPos < firstAct), "Signals.Async is cleared unconditionally before the signal is turned into a panic or a debugger operation")
}

// X3r — every per-goroutine record is registered where it is created. newEnv4Func finds the record of the running
// goroutine in IrGlobals.gls; a record that exists but is not registered makes the lookup create a second record
// for the same goroutine (two frame pools, two signal sets: an interrupt posted on one is never seen by code that
// polls the other). Decided: each creation of a Run — the composite literal in newTopInterp and every call of
// Run.new — binds the record to a variable that, later in the same function (or function literal), is stored into
// the registry: `x.glsStore()`, or `g.gls[k] = x` with k the goid the record was created with.
func ruleRunRegistered(c *Ctx, rule string) {
	pk := c.P.Pkg("fast")
	info := pk.TypesInfo
	n := 0
	for _, fd := range c.P.FuncsOf("fast") {
		if fd.Body == nil || funcKey(pk, fd) == "fast.Run.new" {
			continue
		}
		fkey := funcKey(pk, fd)
		ast.Inspect(fd.Body, func(nd ast.Node) bool {
			as, ok := nd.(*ast.AssignStmt)
			if !ok || len(as.Lhs) != 1 || len(as.Rhs) != 1 || identOf(as.Lhs[0]) == nil {
				return true
			}
			var goidExpr ast.Expr
			created := false
			rhs := unparen(as.Rhs[0])
			if u, ok := rhs.(*ast.UnaryExpr); ok && u.Op == token.AND {
				if cl, ok := unparen(u.X).(*ast.CompositeLit); ok && isNamedType(typeOrInvalid(info, cl), "fast", "Run") {
					created = true
					for _, el := range cl.Elts {
						if kv, ok := el.(*ast.KeyValueExpr); ok && identOf(kv.Key) != nil && identOf(kv.Key).Name == "goid" {
							goidExpr = kv.Value
						}
					}
				}
			}
			if call, ok := rhs.(*ast.CallExpr); ok && funcFullName(calleeOf(info, call)) == "fast.Run.new" {
				created = true
				if len(call.Args) == 1 {
					goidExpr = call.Args[0]
				}
			}
			if !created {
				return true
			}
			n++
			o := info.Defs[identOf(as.Lhs[0])]
			if o == nil {
				o = info.Uses[identOf(as.Lhs[0])]
			}
			registered := false
			ast.Inspect(fd.Body, func(m ast.Node) bool {
				switch x := m.(type) {
				case *ast.CallExpr:
					if x.Pos() > as.Pos() && funcFullName(calleeOf(info, x)) == "fast.Run.glsStore" {
						if s, ok := unparen(x.Fun).(*ast.SelectorExpr); ok && usedObj(info, s.X) == o {
							registered = true
						}
					}
				case *ast.AssignStmt:
					if x.Pos() > as.Pos() && len(x.Lhs) == 1 && len(x.Rhs) == 1 && usedObj(info, x.Rhs[0]) == o {
						if ix, ok := unparen(x.Lhs[0]).(*ast.IndexExpr); ok {
							if _, isG := fieldSel(info, ix.X, "gls"); isG && goidExpr != nil {
								if usedObj(info, ix.Index) != nil && usedObj(info, ix.Index) == usedObj(info, goidExpr) {
									registered = true
								}
							}
						}
					}
				}
				return true
			})
			c.Ob(rule, fmt.Sprintf("%s/%s", fkey, identOf(as.Lhs[0]).Name), as, registered, "the per-goroutine record created here is stored into the registry under its own goroutine id before the function ends")
			return true
		})
	}
	if n < 3 {
		c.Ob(rule, "fast/Run-creation-sites", nil, false, fmt.Sprintf("%d creation sites of Run records found, 3 confirmed by reading (newTopInterp, getRun4Goid, Comp.Go)", n))
	}
}

// X3g — the record of a new goroutine is attached to the frame made for it. Comp.Go wraps the call in a fresh frame
// (newEnv) whose Run field is replaced, inside the goroutine, by the goroutine's own record. The frame that runs
// the go statement belongs to the parent goroutine and must keep the parent's record. Decided: in Comp.Go every
// assignment to a Run field of a frame targets the local bound to the result of newEnv in the same statement closure.
func ruleGoAttachesToOwnFrame(c *Ctx, rule string) {
	pk := c.P.Pkg("fast")
	info := pk.TypesInfo
	fd := c.P.Func("fast.Comp.Go")
	if fd == nil || fd.Body == nil {
		c.Ob(rule, "fast.Comp.Go", nil, false, "anchor function not found")
		return
	}
	var fresh types.Object
	ast.Inspect(fd.Body, func(n ast.Node) bool {
		if as, ok := n.(*ast.AssignStmt); ok && len(as.Lhs) == 1 && len(as.Rhs) == 1 && identOf(as.Lhs[0]) != nil {
			if call, ok := unparen(as.Rhs[0]).(*ast.CallExpr); ok {
				if fn := calleeOf(info, call); fn != nil && (fn.Name() == "newEnv" || fn.Name() == "NewEnv") {
					fresh = info.Defs[identOf(as.Lhs[0])]
				}
			}
		}
		return true
	})
	n := 0
	ast.Inspect(fd.Body, func(nd ast.Node) bool {
		as, ok := nd.(*ast.AssignStmt)
		if !ok {
			return true
		}
		for _, l := range as.Lhs {
			x, isRun := fieldSel(info, l, "Run")
			if !isRun || !isEnvPtr(typeOrInvalid(info, x)) {
				continue
			}
			n++
			c.Ob(rule, fmt.Sprintf("fast.Comp.Go/Run-write#%d", n), as, fresh != nil && usedObj(info, x) == fresh, "the goroutine's record is attached to the frame created for the goroutine (the result of newEnv), not to the frame of the parent")
		}
		return true
	})
	if n == 0 {
		c.Ob(rule, "fast.Comp.Go", fd, false, "no assignment to a frame's Run field in Comp.Go: anchor missing")
	}
}
