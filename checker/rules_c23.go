package main

// C23: the forked scanner on extension-free input.

import (
	"fmt"
	"go/ast"
	"go/token"
	"go/types"
	"sort"
	"strings"
)

// Go spec, "Operators and punctuation" + literals: the tokens that can start with each character.
var scannerCharTable = map[string]string{
	"'+'": "ADD ADD_ASSIGN INC", "'-'": "DEC SUB SUB_ASSIGN", "'*'": "MUL MUL_ASSIGN", "'%'": "REM REM_ASSIGN", "'^'": "XOR XOR_ASSIGN",
	"'<'": "ARROW LEQ LSS SHL SHL_ASSIGN", "'>'": "GEQ GTR SHR SHR_ASSIGN", "'='": "ASSIGN EQL", "'!'": "NEQ NOT",
	"'&'": "AND AND_ASSIGN AND_NOT AND_NOT_ASSIGN LAND", "'|'": "LOR OR OR_ASSIGN", "':'": "COLON DEFINE", "'.'": "ELLIPSIS PERIOD",
	"','": "COMMA", "';'": "SEMICOLON", "'('": "LPAREN", "')'": "RPAREN", "'['": "LBRACK", "']'": "RBRACK", "'{'": "LBRACE", "'}'": "RBRACE",
	"'\"'": "STRING", "'\\''": "CHAR", "'`'": "STRING", "'\\n'": "SEMICOLON", "-1": "EOF SEMICOLON",
}

// Go spec, "Semicolons": a semicolon is inserted after a line's final token if that token is
// an identifier, a literal, one of break continue fallthrough return, ++ -- ) ] }
var semicolonTokens = "BREAK CHAR CONTINUE DEC FALLTHROUGH IDENT INC RBRACE RBRACK RETURN RPAREN STRING number"

func ruleScannerIsolation(c *Ctx, rule string) {
	pk := c.P.Pkg("go/scanner")
	fd := c.P.Func("go/scanner.Scanner.Scan")
	if pk == nil || fd == nil {
		c.Ob(rule, "go/scanner.Scanner.Scan", nil, false, "anchor function not found")
		return
	}
	info := pk.TypesInfo
	isExt := func(e ast.Expr) (string, bool) {
		e = unparen(e)
		if call, ok := e.(*ast.CallExpr); ok {
			if fn := calleeOf(info, call); fn != nil && fn.Pkg() != nil && strings.HasSuffix(fn.Pkg().Path(), "/etoken") && fn.Name() == "LookupSpecial" {
				return "LookupSpecial()", true
			}
			return "", false
		}
		if o := usedObj(info, e); o != nil && o.Pkg() != nil && strings.HasSuffix(o.Pkg().Path(), "/etoken") {
			if _, isC := o.(*types.Const); isC {
				return o.Name(), true
			}
			if _, isV := o.(*types.Var); isV {
				return o.Name(), true
			}
		}
		return "", false
	}
	next := 0
	ast.Inspect(fd.Body, func(nd ast.Node) bool {
		as, ok := nd.(*ast.AssignStmt)
		if !ok || len(as.Lhs) != len(as.Rhs) {
			return true
		}
		for i, l := range as.Lhs {
			if exprString(l) != "tok" {
				continue
			}
			name, ext := isExt(as.Rhs[i])
			if !ext {
				continue
			}
			next++
			guarded := false
			stack := enclosingStack(fd.Body, as)
			for j, anc := range stack {
				switch x := anc.(type) {
				case *ast.CaseClause:
					if len(x.List) == 1 {
						if _, isMC := fieldSel(info, x.List[0], "macroChar"); isMC {
							guarded = true
						}
					}
				case *ast.IfStmt:
					if j+1 < len(stack) && stack[j+1] == ast.Node(x.Body) {
						for _, a := range andAtoms(x.Cond) {
							if b, ok := unparen(a).(*ast.BinaryExpr); ok && b.Op == token.EQL && exprString(b.Y) == "'#'" {
								guarded = true
							}
						}
					}
				}
			}
			c.Ob(rule, "go/scanner.Scanner.Scan/tok="+name, as, guarded, "an extension token is produced only when the current character is the macro character or '#'")
		}
		return true
	})
	if next < 5 {
		c.Ob(rule, "go/scanner.Scanner.Scan/extension-sites", fd, false, fmt.Sprintf("%d extension token assignments found, at least 5 expected", next))
	}
	// a case clause shared by a standard character and an extension character ('/', '#'): every alternative of a condition
	// that looks at the next character also fixes the current one, otherwise the extension's look-ahead ("#!" is a comment)
	// would apply to the standard character too ("/!"), and vice versa
	nshared := 0
	ast.Inspect(fd.Body, func(nd ast.Node) bool {
		cl, ok := nd.(*ast.CaseClause)
		if !ok || len(cl.List) < 2 {
			return true
		}
		hasExt := false
		for _, e := range cl.List {
			if exprString(e) == "'#'" {
				hasExt = true
			}
		}
		if !hasExt {
			return true
		}
		for _, st := range cl.Body {
			ast.Inspect(st, func(m ast.Node) bool {
				ifs, ok := m.(*ast.IfStmt)
				if !ok {
					return true
				}
				// an if nested in the body of another if of this clause inherits that one's guard
				for _, anc := range enclosingStack(cl, ifs) {
					if outer, isIf := anc.(*ast.IfStmt); isIf && outer != ifs && containsNode(outer.Body, ifs) {
						return true
					}
				}
				for _, term := range condDNF(ifs.Cond) {
					looksAhead, fixesCurrent := false, false
					for _, a := range term {
						b, ok := unparen(a).(*ast.BinaryExpr)
						if !ok || (b.Op != token.EQL && b.Op != token.NEQ) {
							continue
						}
						if _, isCh := fieldSel(info, b.X, "ch"); isCh {
							looksAhead = true
						}
						if id := identOf(b.X); id != nil && id.Name == "ch" && b.Op == token.EQL {
							fixesCurrent = true
						}
					}
					if looksAhead {
						nshared++
						var ts []string
						for _, a := range term {
							ts = append(ts, exprString(a))
						}
						c.Ob(rule, "go/scanner.Scanner.Scan/shared-clause "+strings.Join(ts, " && "), ifs, fixesCurrent, "in the clause shared by '/' and '#', an alternative that inspects the next character also says which character it follows")
					}
				}
				return true
			})
		}
		return true
	})
	if nshared < 3 {
		c.Ob(rule, "go/scanner.Scanner.Scan/shared-clause", fd, false, fmt.Sprintf("%d look-ahead alternatives found in the shared clause, at least 3 expected", nshared))
	}
	// identifiers go through etoken.Lookup exactly once, everything else it returns comes from go/token
	lk := c.P.Func("go/etoken.Lookup")
	epk := c.P.Pkg("go/etoken")
	if lk == nil || epk == nil {
		c.Ob(rule, "go/etoken.Lookup", nil, false, "anchor function not found")
		return
	}
	einfo := epk.TypesInfo
	var lit types.Object
	for _, f := range lk.Type.Params.List {
		for _, nm := range f.Names {
			lit = einfo.Defs[nm]
		}
	}
	nret, nstd := 0, 0
	ast.Inspect(lk.Body, func(nd ast.Node) bool {
		r, ok := nd.(*ast.ReturnStmt)
		if !ok || len(r.Results) != 1 {
			return true
		}
		nret++
		if call, ok := unparen(r.Results[0]).(*ast.CallExpr); ok {
			if fn := calleeOf(einfo, call); fn != nil && funcFullName(fn) == "go/token.Lookup" && len(call.Args) == 1 && identOf(call.Args[0]) != nil && einfo.Uses[identOf(call.Args[0])] == lit {
				nstd++
				// must not be inside any conditional
				c.Ob(rule, "go/etoken.Lookup/standard", r, len(enclosingStack(lk.Body, r)) == 2, "every word that is not an extension keyword is classified by go/token.Lookup, unconditionally")
				return true
			}
		}
		// an extension result: guarded by lit == "word"
		word := ""
		generics := false
		stack := enclosingStack(lk.Body, r)
		for j, anc := range stack {
			ifs, ok := anc.(*ast.IfStmt)
			if !ok || j+1 >= len(stack) || stack[j+1] != ast.Node(ifs.Body) {
				continue
			}
			for _, a := range andAtoms(ifs.Cond) {
				b, ok := unparen(a).(*ast.BinaryExpr)
				if !ok || b.Op != token.EQL {
					continue
				}
				if id := identOf(b.X); id != nil && einfo.Uses[id] == lit {
					if s, ok := constString(einfo, b.Y); ok {
						word = s
					}
				}
				if o := usedObj(einfo, b.Y); o != nil && o.Name() == "GENERICS_V1_CXX" {
					generics = true
				}
			}
		}
		okW := word == "macro" || word == "#" || word == "template" && generics
		c.Ob(rule, "go/etoken.Lookup/"+exprString(r.Results[0]), r, okW, fmt.Sprintf("a non-standard keyword token is returned only for the words macro and #, and for template when C++-style generics are enabled (guard word %q, generics %v)", word, generics))
		return true
	})
	c.Ob(rule, "go/etoken.Lookup/returns", lk, nstd == 1 && nret >= 3, fmt.Sprintf("%d returns, %d through go/token.Lookup", nret, nstd))
}

// ruleScannerTables: character -> tokens and the semicolon insertion set, against the Go specification.
func ruleScannerTables(c *Ctx, rule string) {
	pk := c.P.Pkg("go/scanner")
	fd := c.P.Func("go/scanner.Scanner.Scan")
	if pk == nil || fd == nil {
		c.Ob(rule, "go/scanner.Scanner.Scan", nil, false, "anchor function not found")
		return
	}
	info := pk.TypesInfo
	tokName := func(e ast.Expr) string {
		if o := usedObj(info, e); o != nil && o.Pkg() != nil && o.Pkg().Path() == "go/token" {
			if _, ok := o.(*types.Const); ok {
				return o.Name()
			}
		}
		return ""
	}
	// the inner switch on ch
	var inner *ast.SwitchStmt
	ast.Inspect(fd.Body, func(nd ast.Node) bool {
		if sw, ok := nd.(*ast.SwitchStmt); ok && sw.Tag != nil && exprString(sw.Tag) == "ch" && inner == nil {
			inner = sw
		}
		return true
	})
	if inner == nil {
		c.Ob(rule, "go/scanner.Scanner.Scan/switch", fd, false, "character switch not found")
		return
	}
	semis := map[string]bool{}
	seenChars := map[string]bool{}
	for _, cc := range inner.Body.List {
		cl := cc.(*ast.CaseClause)
		if cl.List == nil {
			continue
		}
		var chars []string
		ext := false
		for _, e := range cl.List {
			s := exprString(e)
			if _, isMC := fieldSel(info, e, "macroChar"); isMC || s == "'#'" {
				ext = true
				continue
			}
			chars = append(chars, s)
		}
		if len(chars) == 0 {
			continue
		}
		// tokens mentioned in the arm (standard ones), and where insertSemi = true is set
		toks := map[string]bool{}
		var setsSemi []ast.Node
		for _, st := range cl.Body {
			ast.Inspect(st, func(nd ast.Node) bool {
				switch x := nd.(type) {
				case *ast.SelectorExpr:
					if n := tokName(x); n != "" && n != "ILLEGAL" && n != "COMMENT" {
						toks[n] = true
					}
				case *ast.AssignStmt:
					if len(x.Lhs) == 1 && exprString(x.Lhs[0]) == "insertSemi" && exprString(x.Rhs[0]) == "true" {
						setsSemi = append(setsSemi, x)
					}
				}
				return true
			})
		}
		var tl []string
		for t := range toks {
			tl = append(tl, t)
		}
		sort.Strings(tl)
		got := strings.Join(tl, " ")
		for _, ch := range chars {
			seenChars[ch] = true
			want, known := scannerCharTable[ch]
			if ch == "'/'" {
				want, known = "QUO QUO_ASSIGN SEMICOLON", true // a comment may stand for the newline that ends the line
			}
			key := "go/scanner.Scanner.Scan/char " + ch
			if !known {
				c.Ob(rule, key, cl, false, "character has a case but no entry in the Go specification table: "+got)
				continue
			}
			_ = ext
			c.Ob(rule, key, cl, got == want, fmt.Sprintf("tokens starting with %s are {%s} (Go specification: {%s})", ch, got, want))
		}
		// semicolon insertion: which tokens
		for _, ss := range setsSemi {
			stack := enclosingStack(cl, ss)
			tok := ""
			for j, anc := range stack {
				if ifs, ok := anc.(*ast.IfStmt); ok && j+1 < len(stack) && stack[j+1] == ast.Node(ifs.Body) {
					if b, ok := unparen(ifs.Cond).(*ast.BinaryExpr); ok && b.Op == token.EQL && exprString(b.X) == "tok" {
						tok = tokName(b.Y)
					}
				}
			}
			if tok == "" {
				// unconditional in this arm: the arm's single token
				for _, st := range cl.Body {
					if as, ok := st.(*ast.AssignStmt); ok && len(as.Lhs) == 1 && exprString(as.Lhs[0]) == "tok" {
						tok = tokName(as.Rhs[0])
					}
				}
			}
			if tok != "" {
				semis[tok] = true
			} else {
				semis["?"+strings.Join(chars, ",")] = true
			}
		}
	}
	// outer switch: identifiers / keywords and numbers
	ast.Inspect(fd.Body, func(nd ast.Node) bool {
		sw, ok := nd.(*ast.SwitchStmt)
		if !ok || sw.Tag == nil || exprString(sw.Tag) != "tok" {
			return true
		}
		for _, cc := range sw.Body.List {
			cl := cc.(*ast.CaseClause)
			sets := false
			for _, st := range cl.Body {
				if as, ok := st.(*ast.AssignStmt); ok && len(as.Lhs) == 1 && exprString(as.Lhs[0]) == "insertSemi" && exprString(as.Rhs[0]) == "true" {
					sets = true
				}
			}
			if sets {
				for _, e := range cl.List {
					if n := tokName(e); n != "" {
						semis[n] = true
					}
				}
			}
		}
		return true
	})
	// numbers: insertSemi = true next to scanNumber()
	ast.Inspect(fd.Body, func(nd ast.Node) bool {
		cl, ok := nd.(*ast.CaseClause)
		if !ok {
			return true
		}
		num, sets := false, false
		for _, st := range cl.Body {
			if as, ok := st.(*ast.AssignStmt); ok {
				if len(as.Lhs) == 1 && exprString(as.Lhs[0]) == "insertSemi" && exprString(as.Rhs[0]) == "true" {
					sets = true
				}
				for _, r := range as.Rhs {
					if call, ok := unparen(r).(*ast.CallExpr); ok {
						if fn := calleeOf(info, call); fn != nil && fn.Name() == "scanNumber" {
							num = true
						}
					}
				}
			}
		}
		if num && sets {
			semis["number"] = true
		}
		return true
	})
	var sl []string
	for t := range semis {
		sl = append(sl, t)
	}
	sort.Strings(sl)
	got := strings.Join(sl, " ")
	c.Ob(rule, "go/scanner.Scanner.Scan/semicolon-set", fd, got == semicolonTokens, fmt.Sprintf("a newline becomes a semicolon after {%s} (Go specification: {%s})", got, semicolonTokens))
	// every character of the specification table has a case
	var missing []string
	for ch := range scannerCharTable {
		if !seenChars[ch] {
			missing = append(missing, ch)
		}
	}
	sort.Strings(missing)
	c.Ob(rule, "go/scanner.Scanner.Scan/all-characters", inner, len(missing) == 0 && seenChars["'/'"], fmt.Sprintf("every operator and delimiter character of the specification has a case (missing %v)", missing))
	// switch2/3/4 helpers: which token for which following character
	for _, h := range []struct {
		name string
		n    int
	}{{"switch2", 2}, {"switch3", 4}, {"switch4", 5}} {
		hf := c.P.Func("go/scanner.Scanner." + h.name)
		if hf == nil {
			c.Ob(rule, "go/scanner.Scanner."+h.name, nil, false, "helper not found")
			continue
		}
		np := 0
		for _, f := range hf.Type.Params.List {
			np += len(f.Names)
		}
		// first test is on '=' and returns tok1
		okEq := false
		ast.Inspect(hf.Body, func(nd ast.Node) bool {
			if ifs, ok := nd.(*ast.IfStmt); ok && !okEq {
				if b, ok := unparen(ifs.Cond).(*ast.BinaryExpr); ok && b.Op == token.EQL && exprString(b.Y) == "'='" {
					for _, st := range ifs.Body.List {
						if r, ok := st.(*ast.ReturnStmt); ok && len(r.Results) == 1 && exprString(r.Results[0]) == "tok1" {
							okEq = true
						}
					}
				}
			}
			return true
		})
		c.Ob(rule, "go/scanner.Scanner."+h.name, hf, np == h.n && okEq, "the helper returns its second token when the next character is '='")
	}
	// call sites: switch2(X, X_ASSIGN) etc.
	inspectCalls(fd.Body, func(call *ast.CallExpr) {
		fn := calleeOf(info, call)
		if fn == nil || !strings.HasPrefix(fn.Name(), "switch") {
			return
		}
		var names []string
		for _, a := range call.Args {
			if n := tokName(a); n != "" {
				names = append(names, n)
			} else {
				names = append(names, exprString(a))
			}
		}
		ok := false
		switch fn.Name() {
		case "switch2":
			ok = len(names) == 2 && (names[1] == names[0]+"_ASSIGN" || names[0] == "ASSIGN" && names[1] == "EQL" || names[0] == "NOT" && names[1] == "NEQ" || names[0] == "COLON" && names[1] == "DEFINE")
		case "switch3":
			ok = len(names) == 4 && names[1] == names[0]+"_ASSIGN"
			// the doubled character is the case character
			if ok {
				for _, anc := range enclosingStack(fd.Body, call) {
					if cl, isCl := anc.(*ast.CaseClause); isCl && len(cl.List) == 1 && strings.HasPrefix(exprString(cl.List[0]), "'") {
						ok = exprString(cl.List[0]) == names[2]
					}
				}
			}
		case "switch4":
			ok = len(names) == 5 && (names[0] == "LSS" && names[1] == "LEQ" && names[3] == "SHL" || names[0] == "GTR" && names[1] == "GEQ" && names[3] == "SHR") && names[4] == names[3]+"_ASSIGN"
			if ok {
				for _, anc := range enclosingStack(fd.Body, call) {
					if cl, isCl := anc.(*ast.CaseClause); isCl && len(cl.List) == 1 && strings.HasPrefix(exprString(cl.List[0]), "'") {
						ok = exprString(cl.List[0]) == names[2]
					}
				}
			}
		}
		c.Ob(rule, "go/scanner.Scanner.Scan/"+fn.Name()+"("+strings.Join(names, ",")+")", call, ok, "plain token, its '=' form, and the doubled-character forms are passed in the helper's order")
	})
}

func init() {
	register(&PropDef{
		ID:    "C23",
		Title: "The forked scanner tokenizes extension-free input exactly like the Go scanner",
		Explanation: "Decided (structural clauses; no comparison with the installed go/scanner is possible, the fork is a Go 1.13 copy): I1 extension isolation: in Scanner.Scan every assignment of an extension token (etoken.QUOTE ... HASH, LookupSpecial) is control-dependent on the current character being the macro character or '#'; etoken.Lookup returns a non-standard token only for the words macro and # (and template under C++-style generics) and classifies every other word with go/token.Lookup, unconditionally; in the case clause shared by '/' and '#' every alternative that inspects the next character also fixes the current one (so '#!' starts a comment but '/!' does not); " +
			"I2 table agreement with the Go specification: for each operator / delimiter character the set of tokens its case can produce equals the specification's set (25 characters), every such character has a case, the switch2/3/4 helpers return the '=' form on '=', and every call passes (X, X_ASSIGN[, doubled char, doubled token[, its _ASSIGN]]) consistently with its case character; " +
			"I3 the set of tokens after which a newline becomes a semicolon equals the specification's (identifier, literals, break continue fallthrough return ++ -- ) ] }). " +
			"I3 utf8.RuneError signals an illegal encoding only together with width 1 (a literal U+FFFD has width 3). " +
			"Not decided: scanning of identifiers, numbers, strings, runes and comments (scanIdentifier, scanNumber, scanString ...), positions, error reporting.",
		Assumptions: []string{"Go specification tables for operators/punctuation and automatic semicolon insertion (in the checker source)"},
		Rules: []func(*Ctx){func(c *Ctx) {
			ruleScannerIsolation(c, "I1-extension-isolation")
			ruleScannerTables(c, "I2-scanner-tables")
			ruleRuneErrorWidth(c, "I3-rune-error-width")
			c.Floor("I2-scanner-tables", 40)
		}},
		Technique: "AST/type-resolved custom analysis: control dependence of extension-token assignments, table agreement of the token switch against the Go specification",
		Mutants: []Mutant{
			{Name: "valid-replacement-character-reported-illegal", File: "go/scanner/scanner.go", Old: "if r == utf8.RuneError && w == 1 {", New: "if r == utf8.RuneError {"},
			{Name: "hash-token-for-slash", File: "go/scanner/scanner.go", Old: "\t\t\t} else if ch == '#' {\n\t\t\t\ttok = etoken.HASH", New: "\t\t\t} else if ch == '#' || s.ch == '#' {\n\t\t\t\ttok = etoken.HASH", Canary: true},
			{Name: "slash-bang-taken-for-comment", File: "go/scanner/scanner.go", Old: "if ch == '/' && (s.ch == '/' || s.ch == '*') || ch == '#' && s.ch == '!' {", New: "if s.ch == '/' || s.ch == '*' || s.ch == '!' {"},
			{Name: "percent-equals-becomes-quo-assign", File: "go/scanner/scanner.go", Old: "tok = s.switch2(token.REM, token.REM_ASSIGN)", New: "tok = s.switch2(token.REM, token.QUO_ASSIGN)", Canary: true},
			{Name: "no-semicolon-after-rbrack", File: "go/scanner/scanner.go", Old: "\t\tcase ']':\n\t\t\tinsertSemi = true\n", New: "\t\tcase ']':\n"},
			{Name: "semicolon-after-goto", File: "go/scanner/scanner.go", Old: "case token.IDENT, token.BREAK, token.CONTINUE, token.FALLTHROUGH, token.RETURN:", New: "case token.IDENT, token.BREAK, token.CONTINUE, token.FALLTHROUGH, token.RETURN, token.GOTO:"},
			{Name: "lookup-treats-func-as-macro", File: "go/etoken/token.go", Old: "\tif lit == \"macro\" {", New: "\tif lit == \"macro\" || lit == \"func\" && GENERICS == GENERICS_V1_CXX {"},
			{Name: "shift-helper-args-swapped", File: "go/scanner/scanner.go", Old: "s.switch4(token.GTR, token.GEQ, '>', token.SHR, token.SHR_ASSIGN)", New: "s.switch4(token.GTR, token.GEQ, '>', token.SHL, token.SHL_ASSIGN)"},
			{Name: "andnot-dropped", File: "go/scanner/scanner.go", Old: "\t\t\tif s.ch == '^' {\n\t\t\t\ts.next()\n\t\t\t\ttok = s.switch2(token.AND_NOT, token.AND_NOT_ASSIGN)\n\t\t\t} else {\n\t\t\t\ttok = s.switch3(token.AND, token.AND_ASSIGN, '&', token.LAND)\n\t\t\t}", New: "\t\t\ttok = s.switch3(token.AND, token.AND_ASSIGN, '&', token.LAND)"},
		},
	})
}
