package main

// C35: generic instantiation is memoised under the key of its type arguments.

import (
	"fmt"
	"go/ast"
	"go/token"
	"go/types"
	"strings"
)

// instancesIndex: X.Instances[K] -> K
func instancesIndex(info *types.Info, e ast.Expr) (ast.Expr, bool) {
	ix, ok := unparen(e).(*ast.IndexExpr)
	if !ok {
		return nil, false
	}
	if _, isF := fieldSel(info, ix.X, "Instances"); !isF {
		return nil, false
	}
	return ix.Index, true
}

// keyFromMaker: the expression is maker.ikey or a local defined (once) as maker.ikey
func keyFromMaker(info *types.Info, di *defIndex, e ast.Expr) bool {
	e = unparen(e)
	if _, ok := fieldSel(info, e, "ikey"); ok {
		return true
	}
	if id := identOf(e); id != nil {
		if d := di.single(info.Uses[id]); d != nil {
			_, ok := fieldSel(info, d, "ikey")
			return ok
		}
	}
	return false
}

func ruleGenericMemo(c *Ctx, rule string) {
	pk := c.P.Pkg("fast")
	info := pk.TypesInfo
	type pair struct{ lookup, inst string }
	for _, p := range []pair{{"fast.Comp.genericFunc", "fast.genericMaker.instantiateFunc"}, {"fast.Comp.GenericType", "fast.genericMaker.instantiateType"}} {
		lf, inf := c.P.Func(p.lookup), c.P.Func(p.inst)
		if lf == nil || inf == nil {
			c.Ob(rule, p.lookup, nil, false, "anchor functions not found")
			continue
		}
		instName := p.inst[strings.LastIndex(p.inst, ".")+1:]
		// M1: lookup dominates instantiation
		di := buildDefIndex(info, lf)
		var cached types.Object
		okKey := false
		ast.Inspect(lf.Body, func(n ast.Node) bool {
			as, ok := n.(*ast.AssignStmt)
			if !ok || len(as.Rhs) != 1 {
				return true
			}
			if k, ok := instancesIndex(info, as.Rhs[0]); ok {
				if id := identOf(as.Lhs[0]); id != nil {
					cached = info.Defs[id]
					if cached == nil {
						cached = info.Uses[id]
					}
					okKey = keyFromMaker(info, di, k)
				}
			}
			return true
		})
		c.Ob(rule, p.lookup+"/lookup-key", lf, cached != nil && okKey, "the instance cache is consulted with the key computed from the type arguments (maker.ikey)")
		n := 0
		inspectCalls(lf.Body, func(call *ast.CallExpr) {
			fn := calleeOf(info, call)
			if fn == nil || fn.Name() != instName {
				return
			}
			n++
			guarded := false
			stack := enclosingStack(lf.Body, call)
			for i, anc := range stack {
				ifs, ok := anc.(*ast.IfStmt)
				if !ok || i+1 >= len(stack) {
					continue
				}
				b, ok := unparen(ifs.Cond).(*ast.BinaryExpr)
				if !ok || identOf(b.X) == nil || info.Uses[identOf(b.X)] != cached || exprString(b.Y) != "nil" {
					continue
				}
				if b.Op == token.NEQ && ifs.Else != nil && stack[i+1] == ast.Node(ifs.Else) {
					guarded = true
				}
				if b.Op == token.EQL && stack[i+1] == ast.Node(ifs.Body) {
					guarded = true
				}
			}
			// the result is what the function goes on to use
			assigned := false
			if len(stack) >= 2 {
				if as, ok := stack[len(stack)-2].(*ast.AssignStmt); ok && len(as.Lhs) == 1 && identOf(as.Lhs[0]) != nil && info.Uses[identOf(as.Lhs[0])] == cached {
					assigned = true
				}
			}
			c.Ob(rule, p.lookup+"/instantiate-on-miss", call, guarded && assigned, "a new instance is compiled only when the cache has none for this key, and is then used like a cached one")
		})
		if n == 0 {
			c.Ob(rule, p.lookup+"/instantiate-on-miss", lf, false, "call of "+instName+" not found")
		}
		// M2: the instantiator stores the instance under the same key, and returns what it stored
		di2 := buildDefIndex(info, inf)
		var stores []*ast.AssignStmt
		okStoreKeys := true
		ast.Inspect(inf.Body, func(nd ast.Node) bool {
			if _, isLit := nd.(*ast.FuncLit); isLit {
				return false
			}
			as, ok := nd.(*ast.AssignStmt)
			if !ok || len(as.Lhs) != 1 {
				return true
			}
			if k, ok := instancesIndex(info, as.Lhs[0]); ok {
				stores = append(stores, as)
				if !keyFromMaker(info, di2, k) {
					okStoreKeys = false
				}
			}
			return true
		})
		c.Ob(rule, p.inst+"/store-key", inf, len(stores) > 0 && okStoreKeys, fmt.Sprintf("the new instance is stored in the cache under maker.ikey (%d stores)", len(stores)))
		// every return returns the stored variable
		var stored types.Object
		sameVar := true
		for _, st := range stores {
			id := identOf(st.Rhs[0])
			if id == nil {
				sameVar = false
				continue
			}
			if stored == nil {
				stored = info.Uses[id]
			} else if stored != info.Uses[id] {
				sameVar = false
			}
		}
		okRet := stored != nil && sameVar
		ast.Inspect(inf.Body, func(nd ast.Node) bool {
			if _, isLit := nd.(*ast.FuncLit); isLit {
				return false
			}
			if r, ok := nd.(*ast.ReturnStmt); ok && len(r.Results) == 1 {
				if id := identOf(r.Results[0]); id == nil || info.Uses[id] != stored {
					okRet = false
				}
			}
			return true
		})
		c.Ob(rule, p.inst+"/returns-stored", inf, okRet, "the instance returned to the caller is the one stored in the cache")
		// a store is reached on every path: each store is either at the top level of the body or one store in each branch of a top-level if/else
		top := 0
		for _, st := range inf.Body.List {
			switch x := st.(type) {
			case *ast.AssignStmt:
				if _, ok := instancesIndex(info, x.Lhs[0]); ok && len(x.Lhs) == 1 {
					top++
				}
			case *ast.IfStmt:
				if x.Else != nil {
					nb, ne := 0, 0
					for _, s := range stores {
						if containsNode(x.Body, s) {
							nb++
						}
						if containsNode(x.Else, s) {
							ne++
						}
					}
					if nb > 0 && ne > 0 {
						top++
					}
				}
			}
		}
		c.Ob(rule, p.inst+"/store-on-every-path", inf, top > 0, "every normal path through the instantiator stores the instance")
		// M3: roll-back on failure
		okDefer := false
		var flag types.Object
		for _, st := range inf.Body.List {
			ds, ok := st.(*ast.DeferStmt)
			if !ok {
				continue
			}
			lit, ok := ds.Call.Fun.(*ast.FuncLit)
			if !ok {
				continue
			}
			ast.Inspect(lit.Body, func(nd ast.Node) bool {
				ifs, ok := nd.(*ast.IfStmt)
				if !ok || identOf(ifs.Cond) == nil {
					return true
				}
				inspectCalls(ifs.Body, func(call *ast.CallExpr) {
					if id := identOf(call.Fun); id != nil && id.Name == "delete" && len(call.Args) == 2 {
						if _, isF := fieldSel(info, call.Args[0], "Instances"); isF && keyFromMaker(info, di2, call.Args[1]) {
							okDefer = true
							flag = info.Uses[identOf(ifs.Cond)]
						}
					}
				})
				return true
			})
		}
		// the removal precedes any call that reports the error (and panics) in the handler
		if okDefer {
			for _, st := range inf.Body.List {
				ds, ok := st.(*ast.DeferStmt)
				if !ok {
					continue
				}
				lit, ok := ds.Call.Fun.(*ast.FuncLit)
				if !ok {
					continue
				}
				delPos, errPos := token.NoPos, token.NoPos
				inspectCalls(lit.Body, func(call *ast.CallExpr) {
					if id := identOf(call.Fun); id != nil && id.Name == "delete" && delPos == token.NoPos {
						delPos = call.Pos()
					}
					if fn := calleeOf(info, call); fn != nil && (isErrorHelper(fn) || fn.Name() == "ErrorAt") && errPos == token.NoPos {
						errPos = call.Pos()
					}
				})
				if delPos != token.NoPos && errPos != token.NoPos && errPos < delPos {
					okDefer = false
				}
			}
		}
		c.Ob(rule, p.inst+"/rollback", inf, okDefer, "a deferred handler removes Instances[maker.ikey] when instantiation fails (a failed instantiation is not memoised), before the handler reports the error")
		// the flag is cleared only by the last statement before the final return
		okFlag := false
		if flag != nil {
			nclr := 0
			var last ast.Stmt
			ast.Inspect(inf.Body, func(nd ast.Node) bool {
				if _, isLit := nd.(*ast.FuncLit); isLit {
					return false
				}
				if as, ok := nd.(*ast.AssignStmt); ok && as.Tok == token.ASSIGN && len(as.Lhs) == 1 && identOf(as.Lhs[0]) != nil && info.Uses[identOf(as.Lhs[0])] == flag {
					nclr++
					last = as
				}
				return true
			})
			l := inf.Body.List
			if nclr == 1 && len(l) >= 2 && l[len(l)-2] == last {
				if _, isRet := l[len(l)-1].(*ast.ReturnStmt); isRet {
					okFlag = true
				}
			}
		}
		c.Ob(rule, p.inst+"/flag-cleared-last", inf, okFlag, "the failure flag is cleared once, immediately before the final return")
		// M5: the instance is compiled in a fresh scope into which the type arguments were injected
		var fresh types.Object
		posNew, posInject, posCompile := token.NoPos, token.NoPos, token.NoPos
		ast.Inspect(inf.Body, func(nd ast.Node) bool {
			if _, isLit := nd.(*ast.FuncLit); isLit {
				return false
			}
			switch x := nd.(type) {
			case *ast.AssignStmt:
				if len(x.Rhs) == 1 && len(x.Lhs) == 1 {
					if call, ok := unparen(x.Rhs[0]).(*ast.CallExpr); ok {
						if fn := calleeOf(info, call); fn != nil && fn.Name() == "NewComp" && fresh == nil {
							fresh = info.Defs[identOf(x.Lhs[0])]
							posNew = x.Pos()
						}
					}
				}
			case *ast.CallExpr:
				fn := calleeOf(info, x)
				if fn == nil {
					return true
				}
				if fn.Name() == "injectBinds" && len(x.Args) == 1 && identOf(x.Args[0]) != nil && info.Uses[identOf(x.Args[0])] == fresh && posInject == token.NoPos {
					posInject = x.Pos()
				}
				if s, ok := unparen(x.Fun).(*ast.SelectorExpr); ok && identOf(s.X) != nil && info.Uses[identOf(s.X)] == fresh {
					switch fn.Name() {
					case "FuncLit", "Type", "TypeFunction":
						if posCompile == token.NoPos {
							posCompile = x.Pos()
						}
					}
				}
			}
			return true
		})
		c.Ob(rule, p.inst+"/fresh-scope", inf, fresh != nil && posNew < posInject && posInject < posCompile && posInject != token.NoPos, "the declaration is compiled by a new nested compiler, after the type arguments were injected into it")
		// the compiler methods that compile the declaration are all invoked on the fresh compiler
		okRecv := true
		inspectCalls(inf.Body, func(call *ast.CallExpr) {
			fn := calleeOf(info, call)
			if fn == nil {
				return
			}
			switch fn.Name() {
			case "FuncLit", "Type", "TypeFunction":
				if s, ok := unparen(call.Fun).(*ast.SelectorExpr); ok {
					if id := identOf(s.X); id == nil || info.Uses[id] != fresh {
						okRecv = false
					}
				}
			}
		})
		c.Ob(rule, p.inst+"/compiled-in-fresh-scope", inf, okRecv, "the declaration is compiled only by the fresh compiler")
	}
	// M4: the key: every construction of a maker computes it from the maker's own arguments
	nlit := 0
	for _, fdl := range c.P.FuncsOf("fast") {
		fdl := fdl
		ast.Inspect(fdl.Body, func(nd ast.Node) bool {
			cl, ok := nd.(*ast.CompositeLit)
			if !ok || !isNamedType(info.TypeOf(cl), "fast", "genericMaker") {
				return true
			}
			st, _ := info.TypeOf(cl).Underlying().(*types.Struct)
			if st == nil {
				return true
			}
			nlit++
			vals := map[string]ast.Expr{}
			for i, el := range cl.Elts {
				if kv, ok := el.(*ast.KeyValueExpr); ok {
					vals[exprString(kv.Key)] = kv.Value
				} else if i < st.NumFields() {
					vals[st.Field(i).Name()] = el
				}
			}
			okIkey := false
			if call, ok := unparen(vals["ikey"]).(*ast.CallExpr); ok && len(call.Args) == 2 {
				if fn := calleeOf(info, call); fn != nil && fn.Name() == "GenericKey" {
					if vals["vals"] != nil && vals["types"] != nil && exprString(call.Args[0]) == exprString(vals["vals"]) && exprString(call.Args[1]) == exprString(vals["types"]) {
						okIkey = true
					}
				}
			}
			c.Ob(rule, funcKey(pk, fdl)+"/maker-key", cl, okIkey, "maker.ikey is GenericKey(vals, types) of exactly the values and types stored in the maker")
			return true
		})
	}
	if nlit < 2 {
		c.Ob(rule, "fast.genericMaker/constructions", nil, false, "fewer than 2 constructions of genericMaker found: anchor missing")
	}
	// ikey is never reassigned after construction
	w := fieldWriters(c, "fast", "genericMaker", "ikey")
	nw := 0
	for k := range w {
		if !strings.HasSuffix(k, "#lit") {
			nw++
		}
	}
	c.Ob(rule, "fast.genericMaker.ikey/immutable", nil, nw == 0, fmt.Sprintf("the key of a maker is never modified after construction (%d writers)", nw))
	// GenericKey: slot i holds the value argument, or the identity key of the type argument
	gk := c.P.Func("fast.GenericKey")
	okGK := false
	if gk != nil {
		ast.Inspect(gk.Body, func(nd ast.Node) bool {
			rs, ok := nd.(*ast.RangeStmt)
			if !ok || identOf(rs.Key) == nil {
				return true
			}
			i := identOf(rs.Key).Name
			nset, keyed, valed := 0, false, false
			inspectCalls(rs.Body, func(call *ast.CallExpr) {
				s, ok := unparen(call.Fun).(*ast.SelectorExpr)
				if !ok || s.Sel.Name != "Set" || len(call.Args) != 1 {
					return
				}
				if ic, ok := unparen(s.X).(*ast.CallExpr); ok && len(ic.Args) == 1 && exprString(ic.Args[0]) == i {
					nset++
					arg := exprString(call.Args[0])
					if strings.Contains(arg, "MakeKey(") {
						keyed = true
					} else {
						valed = true
					}
				}
			})
			if nset == 2 && keyed && valed {
				okGK = true
			}
			return true
		})
	}
	c.Ob(rule, "fast.GenericKey", gk, okGK, "element i of the key is the constant argument i, or the identity key (xreflect.MakeKey) of type argument i")
}

// ruleInjectBinds: parameter i is bound to argument i.
func ruleInjectBinds(c *Ctx, rule string) {
	pk := c.P.Pkg("fast")
	info := pk.TypesInfo
	for _, fk := range []string{"fast.genericFuncCandidate.injectBinds", "fast.genericTypeCandidate.injectBinds"} {
		fd := c.P.Func(fk)
		if fd == nil {
			c.Ob(rule, fk, nil, false, "anchor function not found")
			continue
		}
		ok := false
		ast.Inspect(fd.Body, func(nd ast.Node) bool {
			rs, isR := nd.(*ast.RangeStmt)
			if !isR || identOf(rs.Key) == nil || identOf(rs.Value) == nil {
				return true
			}
			if _, isP := fieldSel(info, rs.X, "Params"); !isP {
				return true
			}
			i, name := identOf(rs.Key).Name, identOf(rs.Value).Name
			di := buildDefIndex(info, fd)
			idxOK := func(e ast.Expr, field string) bool {
				e = unparen(e)
				if id := identOf(e); id != nil {
					if d := di.single(info.Uses[id]); d != nil {
						e = unparen(d)
					} else if o := info.Uses[id]; o != nil {
						// `if val := special.vals[i]; val != nil`
						for _, d := range di.defs[o] {
							if d != nil {
								e = unparen(d)
							}
						}
					}
				}
				ix, ok := e.(*ast.IndexExpr)
				if !ok || exprString(ix.Index) != i {
					return false
				}
				_, isF := fieldSel(info, ix.X, field)
				return isF
			}
			nconst, nalias := 0, 0
			inspectCalls(rs.Body, func(call *ast.CallExpr) {
				fn := calleeOf(info, call)
				if fn == nil {
					return
				}
				switch fn.Name() {
				case "DeclConst0":
					if len(call.Args) == 4 && exprString(call.Args[0]) == name && idxOK(call.Args[1], "types") && idxOK(call.Args[2], "vals") {
						nconst++
					}
				case "declTypeAlias":
					if len(call.Args) == 2 && exprString(call.Args[0]) == name && idxOK(call.Args[1], "types") {
						nalias++
					}
				}
			})
			ok = nconst == 1 && nalias == 1
			return true
		})
		c.Ob(rule, fk, fd, ok, "generic parameter i (decl.Params[i]) is declared as a constant of value vals[i] and type types[i], or as an alias of types[i]")
	}
}

func init() {
	register(&PropDef{
		ID:    "C35",
		Title: "Generic instantiation behaves like textual specialization and is memoized",
		Explanation: "Decided (the memoisation clause and the binding clause): M1 Comp.genericFunc and Comp.GenericType consult Instances[maker.ikey] and call the instantiator only on a miss, using its result like a cached instance; M2 the instantiator stores the new instance under the same key on every normal path and returns the stored value (it is stored before the body is compiled, so recursive uses find it); " +
			"M3 a deferred handler deletes Instances[key] when instantiation fails and the failure flag is cleared once, immediately before the final return; M4 maker.ikey is GenericKey(vals, types) of the maker's own arguments, is never reassigned, and element i of the key is the constant argument or xreflect.MakeKey of the type argument; " +
			"M5 the instance is compiled by a fresh nested compiler (NewComp) after injectBinds declared parameter i as a constant of value vals[i] / alias of types[i] in it, and only that compiler compiles the declaration; A3 the closure that evaluates a function instance switches to the frame named by its depth arm (0, 1, 2, file, top, or upn steps) before calling it. " +
			"M6 the maker of an instantiation receives the scope of the generic's declaration, never the scope of the call (the instance is memoised for everybody); L6g equality of two ReflectType() results is never the whole test of type identity in the generic machinery. " +
			"Not decided: equivalence of an instance with the textually specialised declaration; inference of type arguments; choice among specialisations; identity of xreflect.MakeKey for identical types (C29).",
		Assumptions: []string{"xreflect.MakeKey returns equal keys exactly for identical types (canonical interpreter types, C29)"},
		Rules: []func(*Ctx){func(c *Ctx) {
			ruleGenericMemo(c, "M-generic-memo")
			ruleReflectTypeEqualityNeedsIdentity(c, "L6g-reflect-equality-needs-identity", []string{"generic_maker.go", "generic_func.go", "generic_type.go", "generic_infer.go"})
			ruleMakerScope(c, "M6-maker-scope")
			ruleInjectBinds(c, "M5-inject-binds")
			ruleDepthOfEnvCalls(c, "fast", []string{"generic_func.go"}, "A3-depth")
			c.Floor("M-generic-memo", 20)
		}},
		Technique: "AST/type-resolved custom analysis: lookup-dominates-miss, same-key store, deferred roll-back (transactional shape), call order and receiver identity in the instantiators",
		Mutants: []Mutant{
			{Name: "inferred-instance-compiled-in-call-scope", File: "fast/generic_infer.go", Old: "comp: upc, sym: fun.Sym, ifun: fun.Sym.Value,", New: "comp: c, sym: fun.Sym, ifun: fun.Sym.Value,"},
			{Name: "repeated-pattern-variable-matched-by-reflect-type", File: "fast/generic_maker.go", Old: "ok = typ.IdenticalTo(types[i])", New: "ok = typ.ReflectType() == types[i].ReflectType()"},
			{Name: "function-instance-never-cached", File: "fast/generic_func.go", Old: "\tfun.Instances[key] = instance\n", New: "", Canary: true},
			{Name: "type-instance-cached-under-name-only", File: "fast/generic_type.go", Old: "\t\tt = c.Type(special.decl.Decl)\n\t\ttyp.Instances[key] = t", New: "\t\tt = c.Type(special.decl.Decl)\n\t\ttyp.Instances[maker.sym.Name] = t"},
			{Name: "always-reinstantiate", File: "fast/generic_type.go", Old: "\tinstance, _ := typ.Instances[key]\n\tif instance != nil {", New: "\tinstance, _ := typ.Instances[key]\n\tif instance != nil && debug {", Canary: true},
			{Name: "failed-instance-stays-cached", File: "fast/generic_func.go", Old: "\t\t\tdelete(fun.Instances, key)\n", New: ""},
			{Name: "error-reported-before-rollback", File: "fast/generic_type.go", Old: "\t\t\tdelete(typ.Instances, key) // remove the cached instance if present\n\t\t\tc.ErrorAt(node.Pos(), \"error instantiating generic type: %v\\n\\t%v\", maker, recover())", New: "\t\t\terr := recover()\n\t\t\tc.ErrorAt(node.Pos(), \"error instantiating generic type: %v\\n\\t%v\", maker, err)\n\t\t\tdelete(typ.Instances, key) // remove the cached instance if present"},
			{Name: "instance-called-in-wrong-frame", File: "fast/generic_func.go", Old: "\t\t\treturn efun(env.Outer.Outer)", New: "\t\t\treturn efun(env.Outer)"},
			{Name: "flag-cleared-before-compiling", File: "fast/generic_func.go", Old: "\tfun.Instances[key] = instance\n", New: "\tfun.Instances[key] = instance\n\tpanicking = false\n"},
			{Name: "parameters-bound-to-next-argument", File: "fast/generic_maker.go", Old: "func (special *genericTypeCandidate) injectBinds(c *Comp) {\n\tfor i, name := range special.decl.Params {\n\t\tt := special.types[i]", New: "func (special *genericTypeCandidate) injectBinds(c *Comp) {\n\tfor i, name := range special.decl.Params {\n\t\tt := special.types[(i+1)%len(special.types)]"},
			{Name: "compiled-in-declaring-scope", File: "fast/generic_func.go", Old: "expr := c.FuncLit(special.decl.Decl)", New: "expr := maker.comp.FuncLit(special.decl.Decl)"},
			{Name: "key-ignores-values", File: "fast/generic_maker.go", Old: "GenericKey(vals, types), \"\", node.Pos()}", New: "GenericKey(make([]I, n), types), \"\", node.Pos()}"},
		},
	})
}
