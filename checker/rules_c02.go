package main

import (
	"fmt"
	"go/ast"
	"go/token"
	"go/types"
	"strings"
)

// fieldOfStruct reports the field name if e is X.f with f a field of the named struct pkg.typ.
func fieldOfStruct(info *types.Info, e ast.Expr, pkgShort, typ string) string {
	sel, ok := unparen(e).(*ast.SelectorExpr)
	if !ok {
		return ""
	}
	s := info.Selections[sel]
	if s == nil || s.Kind() != types.FieldVal {
		return ""
	}
	if isNamedType(s.Recv(), pkgShort, typ) {
		return sel.Sel.Name
	}
	return ""
}

// ruleAssignPhases: in assign2 / assignMulti every statement closure evaluates all
// left-hand operands (placefun, placekey), then all right-hand expressions, then
// performs the stores (setvar, setplace) — Go's two-phase assignment.
func ruleAssignPhases(c *Ctx) {
	pk := c.P.Pkg("fast")
	info := pk.TypesInfo
	for _, fkey := range []string{"fast.Comp.assign2", "fast.Comp.assignMulti"} {
		fd := c.P.Func(fkey)
		if fd == nil {
			c.Ob("P1-assign-phases", fkey, nil, false, "anchor function not found")
			continue
		}
		di := buildDefIndex(info, fd)
		params := map[types.Object]string{}
		for i, f := range fd.Type.Params.List {
			for _, nm := range f.Names {
				if i >= 1 {
					params[info.Defs[nm]] = "R"
				}
			}
		}
		n := 0
		ast.Inspect(fd.Body, func(nd ast.Node) bool {
			fl, ok := nd.(*ast.FuncLit)
			if !ok || !isStmtSig(info.TypeOf(fl)) {
				return true
			}
			n++
			key := fmt.Sprintf("%s/stmt%d", fkey, n)
			type ev struct {
				class string
				pos   token.Pos
				call  *ast.CallExpr
			}
			var evs []ev
			inspectCalls(fl.Body, func(call *ast.CallExpr) {
				fun := unparen(call.Fun)
				if ix, ok := fun.(*ast.IndexExpr); ok {
					fun = unparen(ix.X)
				}
				switch fieldOfStruct(info, fun, "fast", "Assign") {
				case "placefun", "placekey":
					evs = append(evs, ev{"L", call.Pos(), call})
					return
				case "setvar", "setplace":
					evs = append(evs, ev{"S", call.Pos(), call})
					return
				}
				if r := di.rootOf(info, call.Fun, 0); r != nil {
					if params[r] == "R" && isSigWithEnv(info.TypeOf(call.Fun)) {
						evs = append(evs, ev{"R", call.Pos(), call})
						return
					}
					// setvars := [2]func(*Env, xr.Value){assign[0].setvar, ...}: rooted at the assign parameter
					if sig, ok := info.TypeOf(call.Fun).(*types.Signature); ok && sig.Results().Len() == 0 && sig.Params().Len() == 2 && isEnvPtr(sig.Params().At(0).Type()) {
						evs = append(evs, ev{"S", call.Pos(), call})
					}
				}
			})
			maxPos := map[string]token.Pos{}
			minPos := map[string]token.Pos{}
			cnt := map[string]int{}
			for _, e := range evs {
				cnt[e.class]++
				if e.pos > maxPos[e.class] {
					maxPos[e.class] = e.pos
				}
				if minPos[e.class] == 0 || e.pos < minPos[e.class] {
					minPos[e.class] = e.pos
				}
			}
			ok1 := cnt["R"] > 0 && cnt["S"] > 0 && maxPos["R"] < minPos["S"] && (cnt["L"] == 0 || (maxPos["L"] < minPos["R"]))
			c.Ob("P1-assign-phases", key, fl, ok1, fmt.Sprintf("left operands (%d calls) before right-hand expressions (%d) before stores (%d)", cnt["L"], cnt["R"], cnt["S"]))
			// P1o: within a class, operands addressed by a constant index are used in index order
			// (targets are stored left to right, expressions are evaluated left to right)
			for _, class := range []string{"L", "R", "S"} {
				last, lastPos, inOrder, seen := int64(-1), token.NoPos, true, 0
				for _, e := range evs {
					if e.class != class {
						continue
					}
					k, ok := constIndexIn(info, e.call.Fun)
					if !ok {
						continue
					}
					seen++
					if e.pos > lastPos {
						if k < last {
							inOrder = false
						}
						last, lastPos = k, e.pos
					}
				}
				if seen >= 2 {
					what := map[string]string{"L": "left operands are evaluated", "R": "right-hand expressions are evaluated", "S": "targets are stored"}[class]
					c.Ob("P1-assign-order", key+"/"+class, fl, inOrder, what+" left to right (by their constant index)")
				}
			}
			// P2: right-hand values produced by single-value closures are copied with dup()
			for _, e := range evs {
				if e.class != "R" {
					continue
				}
				sig := info.TypeOf(e.call.Fun).(*types.Signature)
				if sig.Results().Len() != 1 {
					continue // exprxv returns a fresh slice
				}
				wrapped := false
				inspectCalls(fl.Body, func(outer *ast.CallExpr) {
					if funcFullName(calleeOf(info, outer)) == "fast.dup" && len(outer.Args) == 1 && unparen(outer.Args[0]) == e.call {
						wrapped = true
					}
				})
				c.Ob("P2-rhs-copied", key, e.call, wrapped, "right-hand value "+exprString(e.call)+" is copied with dup() before any store (a later store must not change it)")
			}
			// P3: map keys and map objects evaluated on the left are copied when settable
			for _, e := range evs {
				if e.class != "L" {
					continue
				}
				if fieldOfStruct(info, e.call.Fun, "fast", "Assign") != "placekey" {
					continue
				}
				c.Ob("P3-key-copied", key, e.call, copiedWhenSettable(info, fl, e.call), "map key evaluated in phase one is copied (CanSet -> Convert) so that later stores to its variable do not change it")
			}
			return true
		})
	}
	// P4: assign2 is chosen only when neither place has a map key
	fd := c.P.Func("fast.Comp.Assign")
	okGuard := false
	if fd != nil {
		ast.Inspect(fd.Body, func(nd ast.Node) bool {
			ifs, ok := nd.(*ast.IfStmt)
			if !ok {
				return true
			}
			calls2 := false
			inspectCalls(ifs.Body, func(call *ast.CallExpr) {
				if funcFullName(calleeOf(info, call)) == "fast.Comp.assign2" {
					calls2 = true
				}
			})
			if !calls2 {
				return true
			}
			nilTests := 0
			for _, a := range andAtoms(ifs.Cond) {
				if b, ok := a.(*ast.BinaryExpr); ok && b.Op == token.EQL && identOf(b.Y) != nil && identOf(b.Y).Name == "nil" && fieldOfStruct(info, b.X, "fast", "Assign") == "placekey" {
					nilTests++
				}
			}
			okGuard = nilTests >= 2
			return true
		})
	}
	c.Ob("P4-assign2-guard", "fast.Comp.Assign/assign2", fd, okGuard, "the two-place fast path is used only when both places have placekey == nil")
}

func isSigWithEnv(t types.Type) bool {
	sig, ok := t.(*types.Signature)
	return ok && sig.Params().Len() >= 1 && isEnvPtr(sig.Params().At(0).Type())
}

func andAtoms(e ast.Expr) []ast.Expr {
	if b, ok := unparen(e).(*ast.BinaryExpr); ok && b.Op == token.LAND {
		return append(andAtoms(b.X), andAtoms(b.Y)...)
	}
	return []ast.Expr{unparen(e)}
}

// copiedWhenSettable: `if v = <call>; v.CanSet() { v = v.Convert(v.Type()) }`, or
// `v := <call>` followed in the same block by `if v.CanSet() { v = v.Convert(v.Type()) }`, or dup(<call>).
func copiedWhenSettable(info *types.Info, scope ast.Node, call *ast.CallExpr) bool {
	ok := false
	ast.Inspect(scope, func(n ast.Node) bool {
		blk, isBlk := n.(*ast.BlockStmt)
		if !isBlk {
			return true
		}
		for i, st := range blk.List {
			as, isAs := st.(*ast.AssignStmt)
			if !isAs || len(as.Lhs) != 1 || len(as.Rhs) != 1 || unparen(as.Rhs[0]) != ast.Expr(call) || identOf(as.Lhs[0]) == nil {
				continue
			}
			v := info.Defs[identOf(as.Lhs[0])]
			if v == nil {
				v = info.Uses[identOf(as.Lhs[0])]
			}
			if i+1 >= len(blk.List) {
				continue
			}
			ifs, isIf := blk.List[i+1].(*ast.IfStmt)
			if !isIf || ifs.Init != nil {
				continue
			}
			cond, isCall := unparen(ifs.Cond).(*ast.CallExpr)
			if !isCall {
				continue
			}
			sel, isSel := unparen(cond.Fun).(*ast.SelectorExpr)
			if !isSel || sel.Sel.Name != "CanSet" || identOf(sel.X) == nil || info.Uses[identOf(sel.X)] != v {
				continue
			}
			for _, b := range ifs.Body.List {
				if a2, isA2 := b.(*ast.AssignStmt); isA2 && len(a2.Lhs) == 1 && len(a2.Rhs) == 1 && identOf(a2.Lhs[0]) != nil && info.Uses[identOf(a2.Lhs[0])] == v {
					if c2, isC2 := unparen(a2.Rhs[0]).(*ast.CallExpr); isC2 {
						if s2, isS2 := unparen(c2.Fun).(*ast.SelectorExpr); isS2 && s2.Sel.Name == "Convert" {
							ok = true
						}
					}
				}
			}
		}
		return true
	})
	if ok {
		return true
	}
	ast.Inspect(scope, func(n ast.Node) bool {
		switch x := n.(type) {
		case *ast.CallExpr:
			if funcFullName(calleeOf(info, x)) == "fast.dup" && len(x.Args) == 1 && unparen(x.Args[0]) == call {
				ok = true
			}
		case *ast.IfStmt:
			as, isAs := x.Init.(*ast.AssignStmt)
			if !isAs || len(as.Rhs) != 1 || unparen(as.Rhs[0]) != call || len(as.Lhs) != 1 {
				return true
			}
			v := identOf(as.Lhs[0])
			cond, isCall := unparen(x.Cond).(*ast.CallExpr)
			if v == nil || !isCall {
				return true
			}
			if sel, isSel := unparen(cond.Fun).(*ast.SelectorExpr); !isSel || sel.Sel.Name != "CanSet" || identOf(sel.X) == nil || identOf(sel.X).Name != v.Name {
				return true
			}
			for _, st := range x.Body.List {
				if a2, isA2 := st.(*ast.AssignStmt); isA2 && len(a2.Lhs) == 1 && len(a2.Rhs) == 1 {
					if c2, isC2 := unparen(a2.Rhs[0]).(*ast.CallExpr); isC2 {
						if s2, isS2 := unparen(c2.Fun).(*ast.SelectorExpr); isS2 && s2.Sel.Name == "Convert" {
							ok = true
						}
					}
				}
			}
		}
		return true
	})
	return ok
}

// ruleOperandOnce: in the place specialisations every captured operand closure
// (place object, map key, right-hand side) is evaluated at most once on every path
// and never inside a loop.
func ruleOperandOnce(c *Ctx, files []string, rule string) {
	fam := families(c, "fast")
	for _, m := range inFiles(c, fam.members, files...) {
		info := m.Pk.TypesInfo
		if !isStmtSig(info.TypeOf(m.Lit)) {
			continue
		}
		counts := maxCalls(info, m.Lit, m.Lit.Body)
		var bad []string
		for o, n := range counts {
			if n > 1 {
				bad = append(bad, fmt.Sprintf("%s evaluated %d times", o.Name(), n))
			}
		}
		c.Ob(rule, m.Key(), m.Lit, len(bad) == 0, fmt.Sprintf("%d captured operand closures, each evaluated at most once per path %s", len(counts), strings.Join(bad, ", ")))
	}
}

// maxCalls returns, per captured func(*Env...) variable, the maximum number of calls on any path through n.
func maxCalls(info *types.Info, lit *ast.FuncLit, n ast.Node) map[types.Object]int {
	out := map[types.Object]int{}
	add := func(dst, src map[types.Object]int) {
		for k, v := range src {
			dst[k] += v
		}
	}
	maxm := func(ms ...map[types.Object]int) map[types.Object]int {
		r := map[types.Object]int{}
		for _, m := range ms {
			for k, v := range m {
				if v > r[k] {
					r[k] = v
				}
			}
		}
		return r
	}
	var exprCalls func(e ast.Node) map[types.Object]int
	exprCalls = func(e ast.Node) map[types.Object]int {
		r := map[types.Object]int{}
		if e == nil {
			return r
		}
		ast.Inspect(e, func(x ast.Node) bool {
			if _, ok := x.(*ast.FuncLit); ok {
				return false
			}
			if call, ok := x.(*ast.CallExpr); ok {
				if id := identOf(call.Fun); id != nil {
					if o, ok := info.Uses[id].(*types.Var); ok && isSigWithEnv(o.Type()) && !(o.Pos() >= lit.Pos() && o.Pos() < lit.End()) && len(call.Args) >= 1 && isEnvPtr(info.TypeOf(call.Args[0])) {
						r[o]++
					}
				}
			}
			return true
		})
		return r
	}
	var stmt func(s ast.Stmt) map[types.Object]int
	block := func(l []ast.Stmt) map[types.Object]int {
		r := map[types.Object]int{}
		for _, s := range l {
			add(r, stmt(s))
		}
		return r
	}
	stmt = func(s ast.Stmt) map[types.Object]int {
		switch x := s.(type) {
		case nil:
			return map[types.Object]int{}
		case *ast.BlockStmt:
			return block(x.List)
		case *ast.IfStmt:
			r := map[types.Object]int{}
			if x.Init != nil {
				add(r, stmt(x.Init))
			}
			add(r, exprCalls(x.Cond))
			var e map[types.Object]int
			if x.Else != nil {
				e = stmt(x.Else)
			}
			add(r, maxm(block(x.Body.List), e))
			return r
		case *ast.ForStmt, *ast.RangeStmt:
			r := exprCalls(x)
			for k := range r {
				r[k] += 1 // inside a loop: may repeat
			}
			return r
		case *ast.SwitchStmt:
			r := map[types.Object]int{}
			if x.Init != nil {
				add(r, stmt(x.Init))
			}
			add(r, exprCalls(x.Tag))
			var ms []map[types.Object]int
			for _, cc := range x.Body.List {
				cl := cc.(*ast.CaseClause)
				m := map[types.Object]int{}
				for _, e := range cl.List {
					add(m, exprCalls(e))
				}
				add(m, block(cl.Body))
				ms = append(ms, m)
			}
			add(r, maxm(ms...))
			return r
		default:
			return exprCalls(s)
		}
	}
	if b, ok := n.(*ast.BlockStmt); ok {
		add(out, block(b.List))
	}
	return out
}

// ruleIncDec: x++ / x-- compile through SetPlace with ADD / SUB and the constant one.
func ruleIncDec(c *Ctx) {
	pk := c.P.Pkg("fast")
	info := pk.TypesInfo
	fd := c.P.Func("fast.Comp.IncDec")
	if fd == nil {
		c.Ob("I1-incdec", "fast.Comp.IncDec", nil, false, "anchor function not found")
		return
	}
	mapOK, callOK := false, false
	di := buildDefIndex(info, fd)
	ast.Inspect(fd.Body, func(n ast.Node) bool {
		switch x := n.(type) {
		case *ast.IfStmt:
			b, ok := unparen(x.Cond).(*ast.BinaryExpr)
			if !ok || b.Op != token.EQL {
				return true
			}
			tk := objQName(usedObj(info, b.Y))
			thenTok := assignedToken(info, x.Body)
			elseTok := ""
			if blk, ok := x.Else.(*ast.BlockStmt); ok {
				elseTok = assignedToken(info, blk)
			}
			if tk == "go/token.DEC" && thenTok == "go/token.SUB" && elseTok == "go/token.ADD" {
				mapOK = true
			}
			if tk == "go/token.INC" && thenTok == "go/token.ADD" && elseTok == "go/token.SUB" {
				mapOK = true
			}
		case *ast.CallExpr:
			if funcFullName(calleeOf(info, x)) == "fast.Comp.SetPlace" && len(x.Args) == 3 {
				arg := x.Args[2]
				if id := identOf(arg); id != nil {
					if d := di.single(info.Uses[id]); d != nil {
						arg = d
					}
				}
				ast.Inspect(arg, func(m ast.Node) bool {
					if id, ok := m.(*ast.Ident); ok && objQName(info.Uses[id]) == "fast.untypedOne" {
						callOK = true
					}
					return true
				})
			}
		}
		return true
	})
	c.Ob("I1-incdec", "fast.Comp.IncDec/operator", fd, mapOK, "DEC compiles as SUB and INC as ADD")
	c.Ob("I1-incdec", "fast.Comp.IncDec/constant", fd, callOK, "the operand is the untyped constant one, compiled through the same SetPlace entry point as x op= 1")
	// untypedOne is the constant 1
	okOne := false
	for _, f := range pk.Syntax {
		ast.Inspect(f, func(n ast.Node) bool {
			vs, ok := n.(*ast.ValueSpec)
			if !ok {
				return true
			}
			for i, nm := range vs.Names {
				if nm.Name == "untypedOne" && i < len(vs.Values) {
					ast.Inspect(vs.Values[i], func(m ast.Node) bool {
						if call, ok := m.(*ast.CallExpr); ok && (funcFullName(calleeOf(info, call)) == "go/constant.MakeInt64" || funcFullName(calleeOf(info, call)) == "go/constant.MakeUint64") && len(call.Args) == 1 {
							if v, ok := constInt(info, call.Args[0]); ok && v == 1 {
								okOne = true
							}
						}
						return true
					})
				}
			}
			return true
		})
	}
	c.Ob("I1-incdec", "fast.untypedOne", nil, okOne, "untypedOne is constant.MakeInt64(1)")
}

func assignedToken(info *types.Info, b *ast.BlockStmt) string {
	if b == nil || len(b.List) != 1 {
		return ""
	}
	as, ok := b.List[0].(*ast.AssignStmt)
	if !ok || len(as.Rhs) != 1 {
		return ""
	}
	return objQName(usedObj(info, as.Rhs[0]))
}

// constIndexIn returns the constant index of the first index expression met while descending through
// selectors and parentheses of e (assign[1].setvar, efuns[0], setvars[1]).
func constIndexIn(info *types.Info, e ast.Expr) (int64, bool) {
	for {
		switch x := unparen(e).(type) {
		case *ast.SelectorExpr:
			e = x.X
		case *ast.IndexExpr:
			return constInt(info, x.Index)
		default:
			return 0, false
		}
	}
}
