package main

// C21: quote / quasiquote.

import (
	"fmt"
	"go/ast"
	"go/token"
	"go/types"
	"sort"
	"strings"
)

// ruleQuasiquoteFresh (T1): the tree-building closures of fast/quasiquote.go modify only nodes they created
// themselves in the same execution (locals of the closure), never a captured compile-time tree, and return
// a value derived from such a local: each evaluation yields a fresh tree.
func ruleQuasiquoteFresh(c *Ctx, rule string) {
	pk := c.P.Pkg("fast")
	info := pk.TypesInfo
	n := 0
	for _, fd := range c.P.FuncsOf("fast") {
		if baseName(c.P.Fset, fd) != "quasiquote.go" || fd.Body == nil {
			continue
		}
		fd := fd
		fk := funcKey(pk, fd)
		ord := 0
		ast.Inspect(fd.Body, func(nd ast.Node) bool {
			lit, ok := nd.(*ast.FuncLit)
			if !ok {
				return true
			}
			// run-time closure: func(*Env) xr.Value
			sig, _ := info.TypeOf(lit).(*types.Signature)
			if sig == nil || sig.Params().Len() != 1 || !isEnvPtr(sig.Params().At(0).Type()) {
				return true
			}
			ord++
			n++
			key := fmt.Sprintf("%s/closure%d", fk, ord)
			// a local is fresh when it is declared in the closure and every value assigned to it is allocated
			// there (a call such as X.New(), a literal, or another fresh local): `out := form` is an alias
			var isLocal func(o types.Object) bool
			visiting := map[types.Object]bool{}
			isLocal = func(o types.Object) bool {
				if o == nil || !(o.Pos() > lit.Pos() && o.Pos() < lit.End()) {
					return false
				}
				if visiting[o] {
					return true
				}
				visiting[o] = true
				defer delete(visiting, o)
				fresh := true
				ast.Inspect(lit.Body, func(m ast.Node) bool {
					as, ok := m.(*ast.AssignStmt)
					if !ok || len(as.Lhs) != len(as.Rhs) {
						return true
					}
					for i, l := range as.Lhs {
						id := identOf(l)
						if id == nil || !(info.Defs[id] == o || info.Uses[id] == o) {
							continue
						}
						e := unparen(as.Rhs[i])
						if ta, ok := e.(*ast.TypeAssertExpr); ok {
							e = unparen(ta.X)
						}
						switch x := e.(type) {
						case *ast.CallExpr, *ast.CompositeLit:
						case *ast.UnaryExpr:
							if _, isCl := unparen(x.X).(*ast.CompositeLit); !isCl {
								fresh = false
							}
						case *ast.Ident:
							if !isLocal(info.Uses[x]) {
								fresh = false
							}
						default:
							root, _ := lhsRoot(info, e)
							if !isLocal(root) {
								fresh = false
							}
						}
					}
					return true
				})
				return fresh
			}
			var bad []string
			mutations := 0
			inspectCalls(lit.Body, func(call *ast.CallExpr) {
				s, ok := unparen(call.Fun).(*ast.SelectorExpr)
				if !ok {
					return
				}
				switch s.Sel.Name {
				case "Set", "Append":
				default:
					return
				}
				// only the uniform syntax-tree wrappers
				rt := info.TypeOf(s.X)
				if rt == nil {
					return
				}
				if !implementsAst(rt) {
					return
				}
				mutations++
				root, _ := lhsRoot(info, s.X)
				if !isLocal(root) {
					bad = append(bad, exprString(s.X)+"."+s.Sel.Name)
				}
			})
			// assignments through selectors/indexes of captured variables
			ast.Inspect(lit.Body, func(m ast.Node) bool {
				if as, ok := m.(*ast.AssignStmt); ok {
					for _, l := range as.Lhs {
						if _, isId := unparen(l).(*ast.Ident); isId {
							continue
						}
						root, _ := lhsRoot(info, l)
						if root != nil && !isLocal(root) {
							bad = append(bad, exprString(l)+" =")
						}
					}
				}
				return true
			})
			// what the closure returns was built in this execution: a captured xreflect.Value handed out as it is would give
			// every evaluation the same tree
			ast.Inspect(lit.Body, func(m ast.Node) bool {
				if _, nested := m.(*ast.FuncLit); nested {
					return false
				}
				if r, ok := m.(*ast.ReturnStmt); ok {
					for _, e := range r.Results {
						if id := identOf(e); id != nil {
							if o, isVar := info.Uses[id].(*types.Var); isVar && !o.IsField() && isReflectValue(o.Type()) && !(o.Pos() > lit.Pos() && o.Pos() < lit.End()) {
								bad = append(bad, "return "+id.Name+" (captured)")
							}
						}
					}
				}
				return true
			})
			c.Ob(rule, key, lit, len(bad) == 0, fmt.Sprintf("the closure modifies only trees it created in this execution (%d Set/Append calls) and returns none it captured; offending: %v", mutations, bad))
			return false
		})
	}
	if n < 6 {
		c.Ob(rule, "fast/quasiquote.go", nil, false, fmt.Sprintf("%d tree-building closures found, at least 6 expected: anchor missing", n))
	}
	// the compile-time template is cloned before it is captured: `form := in.New()` — the closure calls form.New() again
	fq := c.P.Func("fast.Comp.quasiquote")
	if fq == nil {
		c.Ob(rule, "fast.Comp.quasiquote", nil, false, "anchor function not found")
		return
	}
	news := 0
	ast.Inspect(fq.Body, func(nd ast.Node) bool {
		lit, ok := nd.(*ast.FuncLit)
		if !ok {
			return true
		}
		ast.Inspect(lit.Body, func(m ast.Node) bool {
			if as, ok := m.(*ast.AssignStmt); ok && as.Tok == token.DEFINE && len(as.Rhs) == 1 {
				e := unparen(as.Rhs[0])
				if ta, ok := e.(*ast.TypeAssertExpr); ok {
					e = unparen(ta.X)
				}
				if call, ok := e.(*ast.CallExpr); ok {
					if s, ok := unparen(call.Fun).(*ast.SelectorExpr); ok && s.Sel.Name == "New" && len(call.Args) == 0 {
						news++
					}
				}
			}
			return true
		})
		return false
	})
	c.Ob(rule, "fast.Comp.quasiquote/new-per-execution", fq, news >= 2, fmt.Sprintf("the output node is allocated with New() inside the run-time closures (%d sites)", news))
}

// implementsAst: the type is one of the ast2 wrappers (has methods Get, Set, Size, New) or the Ast interfaces.
func implementsAst(t types.Type) bool {
	ms := types.NewMethodSet(t)
	need := map[string]bool{"Get": false, "Size": false, "New": false}
	for i := 0; i < ms.Len(); i++ {
		if _, ok := need[ms.At(i).Obj().Name()]; ok {
			need[ms.At(i).Obj().Name()] = true
		}
	}
	if it, ok := t.Underlying().(*types.Interface); ok {
		for i := 0; i < it.NumMethods(); i++ {
			if _, ok := need[it.Method(i).Name()]; ok {
				need[it.Method(i).Name()] = true
			}
		}
	}
	for _, v := range need {
		if !v {
			return false
		}
	}
	return true
}

// ruleQuasiquoteDepth (T2): depth bookkeeping of the two interpreters.
func ruleQuasiquoteDepth(c *Ctx, rule string) {
	// fast: op == QUASIQUOTE -> depth++ ; op == UNQUOTE || op == UNQUOTE_SPLICE -> depth-- ; compile iff depth <= 0 afterwards
	fpk := c.P.Pkg("fast")
	finfo := fpk.TypesInfo
	fq := c.P.Func("fast.Comp.quasiquote")
	if fq == nil {
		c.Ob(rule, "fast.Comp.quasiquote", nil, false, "anchor function not found")
		return
	}
	var depthObj types.Object
	for _, f := range fq.Type.Params.List {
		for _, nm := range f.Names {
			if o := finfo.Defs[nm]; o != nil {
				if b, ok := o.Type().Underlying().(*types.Basic); ok && b.Kind() == types.Int {
					depthObj = o
				}
			}
		}
	}
	tokensIn := func(info *types.Info, cond ast.Expr) []string {
		var out []string
		ast.Inspect(cond, func(n ast.Node) bool {
			if s, ok := n.(*ast.SelectorExpr); ok {
				if o := info.Uses[s.Sel]; o != nil && o.Pkg() != nil && strings.HasSuffix(o.Pkg().Path(), "/etoken") {
					out = append(out, o.Name())
				}
			}
			return true
		})
		sort.Strings(out)
		return out
	}
	delta := map[string]int{}
	threshold := ""
	var thresholdPos, lastDelta token.Pos
	ast.Inspect(fq.Body, func(nd ast.Node) bool {
		ifs, ok := nd.(*ast.IfStmt)
		if !ok {
			return true
		}
		// depth++ / depth-- as the only statement of a branch guarded by op comparisons
		var walkIf func(x *ast.IfStmt)
		walkIf = func(x *ast.IfStmt) {
			if len(x.Body.List) == 1 {
				if inc, ok := x.Body.List[0].(*ast.IncDecStmt); ok && identOf(inc.X) != nil && finfo.Uses[identOf(inc.X)] == depthObj {
					d := 1
					if inc.Tok == token.DEC {
						d = -1
					}
					for _, t := range tokensIn(finfo, x.Cond) {
						delta[t] = d
					}
					if inc.End() > lastDelta {
						lastDelta = inc.End()
					}
				}
			}
			if e, ok := x.Else.(*ast.IfStmt); ok {
				walkIf(e)
			}
		}
		walkIf(ifs)
		if b, ok := unparen(ifs.Cond).(*ast.BinaryExpr); ok && identOf(b.X) != nil && finfo.Uses[identOf(b.X)] == depthObj && threshold == "" {
			if v, isC := constInt(finfo, b.Y); isC {
				compiles := false
				inspectCalls(ifs.Body, func(call *ast.CallExpr) {
					if fn := calleeOf(finfo, call); fn != nil && fn.Name() == "compileExpr" {
						compiles = true
					}
				})
				if compiles {
					threshold = fmt.Sprintf("%s %d", b.Op, v)
					thresholdPos = ifs.Pos()
				}
			}
		}
		return true
	})
	okFast := delta["QUASIQUOTE"] == 1 && delta["UNQUOTE"] == -1 && delta["UNQUOTE_SPLICE"] == -1 && len(delta) == 3 && threshold == "<= 0" && lastDelta < thresholdPos
	c.Ob(rule, "fast.Comp.quasiquote/depth", fq, okFast, fmt.Sprintf("fast: QUASIQUOTE deepens by one, UNQUOTE and UNQUOTE_SPLICE lift by one, and the body is compiled as code exactly when the depth after that is <= 0 (found deltas %v, threshold %q)", delta, threshold))
	// classic: recursion arguments per arm, threshold for a single unquote
	cpk := c.P.Pkg("classic")
	cq := c.P.Func("classic.Env.evalQuasiquoteAst")
	if cpk == nil || cq == nil {
		c.Ob(rule, "classic.Env.evalQuasiquoteAst", nil, false, "anchor function not found")
		return
	}
	cinfo := cpk.TypesInfo
	var cdepth types.Object
	for _, f := range cq.Type.Params.List {
		for _, nm := range f.Names {
			if o := cinfo.Defs[nm]; o != nil {
				if b, ok := o.Type().Underlying().(*types.Basic); ok && b.Kind() == types.Int {
					cdepth = o
				}
			}
		}
	}
	// every recursive call inside a `case etoken.X` arm: depth argument
	type rec struct {
		toks []string
		arg  string
	}
	var recs []rec
	cthr := map[string]bool{}
	ast.Inspect(cq.Body, func(nd ast.Node) bool {
		cl, ok := nd.(*ast.CaseClause)
		if !ok || cl.List == nil {
			return true
		}
		var toks []string
		for _, e := range cl.List {
			toks = append(toks, tokensIn(cinfo, e)...)
		}
		if len(toks) == 0 {
			return true
		}
		for _, st := range cl.Body {
			inspectCalls(st, func(call *ast.CallExpr) {
				if fn := calleeOf(cinfo, call); fn != nil && fn.Name() == "evalQuasiquoteAst" && len(call.Args) == 2 {
					recs = append(recs, rec{toks, exprString(call.Args[1])})
				}
			})
			ast.Inspect(st, func(m ast.Node) bool {
				if ifs, ok := m.(*ast.IfStmt); ok {
					if b, ok := unparen(ifs.Cond).(*ast.BinaryExpr); ok && identOf(b.X) != nil && cinfo.Uses[identOf(b.X)] == cdepth {
						if v, isC := constInt(cinfo, b.Y); isC {
							evals := false
							inspectCalls(ifs.Body, func(call *ast.CallExpr) {
								if fn := calleeOf(cinfo, call); fn != nil && fn.Name() == "evalUnquote" {
									evals = true
								}
							})
							if evals {
								cthr[fmt.Sprintf("%s %d", b.Op, v)] = true
							}
						}
					}
				}
				return true
			})
		}
		return true
	})
	okClassic := len(recs) >= 4
	var got []string
	for _, r := range recs {
		want := cdepth.Name() + "-1"
		if len(r.toks) == 1 && r.toks[0] == "QUASIQUOTE" {
			want = cdepth.Name() + "+1"
		}
		if strings.ReplaceAll(r.arg, " ", "") != want {
			okClassic = false
		}
		got = append(got, strings.Join(r.toks, ",")+":"+r.arg)
	}
	// fast compiles when depth-1 <= 0, i.e. when the incoming depth <= 1
	c.Ob(rule, "classic.Env.evalQuasiquoteAst/depth", cq, okClassic && len(cthr) == 1 && cthr["<= 1"], fmt.Sprintf("classic: recursion below QUASIQUOTE uses depth+1, below UNQUOTE/UNQUOTE_SPLICE depth-1, and a single unquote is evaluated exactly when depth <= 1: the same table as the fast interpreter (found %v, thresholds %v)", got, cthr))
	// list context: evaluated exactly when the nesting of unquotes equals the depth
	okCmp := false
	ast.Inspect(cq.Body, func(nd ast.Node) bool {
		ifs, ok := nd.(*ast.IfStmt)
		if !ok {
			return true
		}
		b, ok := unparen(ifs.Cond).(*ast.BinaryExpr)
		if !ok || b.Op != token.GTR || identOf(b.Y) == nil || cinfo.Uses[identOf(b.Y)] != cdepth {
			return true
		}
		// if u > depth {error} else if u < depth {recurse} else {evaluate}
		e1, ok := ifs.Else.(*ast.IfStmt)
		if !ok {
			return true
		}
		b2, ok := unparen(e1.Cond).(*ast.BinaryExpr)
		if !ok || b2.Op != token.LSS || exprString(b2.X) != exprString(b.X) || identOf(b2.Y) == nil || cinfo.Uses[identOf(b2.Y)] != cdepth {
			return true
		}
		errs, recurses, evals := false, false, false
		inspectCalls(ifs.Body, func(call *ast.CallExpr) {
			if fn := calleeOf(cinfo, call); fn != nil && isErrorHelper(fn) {
				errs = true
			}
		})
		inspectCalls(e1.Body, func(call *ast.CallExpr) {
			if fn := calleeOf(cinfo, call); fn != nil && fn.Name() == "evalQuasiquoteAst" {
				recurses = true
			}
		})
		if e1.Else != nil {
			inspectCalls(e1.Else, func(call *ast.CallExpr) {
				if fn := calleeOf(cinfo, call); fn != nil && fn.Name() == "evalUnquote" {
					evals = true
				}
			})
		}
		okCmp = errs && recurses && evals
		return true
	})
	c.Ob(rule, "classic.Env.evalQuasiquoteAst/list-context", cq, okCmp, "in a list, a stack of u nested unquotes is an error when u > depth, is rebuilt one level up when u < depth and is evaluated when u == depth")
}

// ruleQuasiquoteSplice (T3): splicing inserts every element, in order, and only in list context.
func ruleQuasiquoteSplice(c *Ctx, rule string) {
	fpk := c.P.Pkg("fast")
	finfo := fpk.TypesInfo
	fq := c.P.Func("fast.Comp.quasiquote")
	if fq == nil {
		c.Ob(rule, "fast.Comp.quasiquote", nil, false, "anchor function not found")
		return
	}
	// recursive calls: canSplice is true exactly in the AstWithSlice arm
	type callInfo struct {
		arm  string
		flag string
		at   ast.Node
	}
	var calls []callInfo
	ast.Inspect(fq.Body, func(nd ast.Node) bool {
		ts, ok := nd.(*ast.TypeSwitchStmt)
		if !ok {
			return true
		}
		for _, cc := range ts.Body.List {
			cl := cc.(*ast.CaseClause)
			arm := "default"
			if cl.List != nil {
				arm = exprString(cl.List[0])
			}
			for _, st := range cl.Body {
				// only the element loop, not nested quote arms
				inspectCalls(st, func(call *ast.CallExpr) {
					fn := calleeOf(finfo, call)
					if fn == nil || len(call.Args) != 3 {
						return
					}
					if fn.Name() == "quasiquote" || fn.Name() == "quasiquote1" {
						calls = append(calls, callInfo{arm, exprString(call.Args[2]), call})
					}
				})
			}
		}
		return false
	})
	// after the type switch: the AstWithNode (fixed arity) part
	var tsEnd token.Pos
	for _, st := range fq.Body.List {
		if ts, ok := st.(*ast.TypeSwitchStmt); ok {
			tsEnd = ts.End()
		}
	}
	for _, st := range fq.Body.List {
		if st.Pos() > tsEnd && tsEnd != token.NoPos {
			inspectCalls(st, func(call *ast.CallExpr) {
				fn := calleeOf(finfo, call)
				if fn != nil && (fn.Name() == "quasiquote" || fn.Name() == "quasiquote1") && len(call.Args) == 3 {
					calls = append(calls, callInfo{"AstWithNode", exprString(call.Args[2]), call})
				}
			})
		}
	}
	nSlice, nNode := 0, 0
	for _, ci := range calls {
		switch ci.arm {
		case "AstWithSlice":
			nSlice++
			c.Ob(rule, "fast.Comp.quasiquote/children-of-list", ci.at, ci.flag == "true", "children of a list node may splice (canSplice = true)")
		case "AstWithNode":
			nNode++
			c.Ob(rule, "fast.Comp.quasiquote/children-of-node", ci.at, ci.flag == "false", "children of a fixed-arity node may not splice (canSplice = false)")
		}
	}
	if nSlice == 0 || nNode == 0 {
		c.Ob(rule, "fast.Comp.quasiquote/recursion", fq, false, "recursive calls for list and fixed-arity children not found")
	}
	// splice loops: for j := 0; j < n; j++ with n := xs.Size(): out = out.Append(xs.Get(j))
	checkSpliceLoops := func(info *types.Info, fd *ast.FuncDecl, key string, min int) {
		n := 0
		ast.Inspect(fd.Body, func(nd ast.Node) bool {
			f, ok := nd.(*ast.ForStmt)
			if !ok || f.Init == nil || f.Cond == nil || f.Post == nil {
				return true
			}
			init, _ := f.Init.(*ast.AssignStmt)
			cond, _ := unparen(f.Cond).(*ast.BinaryExpr)
			post, _ := f.Post.(*ast.IncDecStmt)
			if init == nil || cond == nil || post == nil || len(init.Lhs) < 1 {
				return true
			}
			j := exprString(init.Lhs[0])
			// appends of X.Get(j)
			var src string
			inspectCalls(f.Body, func(call *ast.CallExpr) {
				s, ok := unparen(call.Fun).(*ast.SelectorExpr)
				if !ok || s.Sel.Name != "Append" || len(call.Args) != 1 {
					return
				}
				ast.Inspect(call.Args[0], func(m ast.Node) bool {
					if g, ok := m.(*ast.CallExpr); ok && len(g.Args) == 1 && exprString(g.Args[0]) == j {
						if gs, ok := unparen(g.Fun).(*ast.SelectorExpr); ok && gs.Sel.Name == "Get" {
							src = exprString(gs.X)
						}
					}
					return true
				})
				// through locals of the loop body: `xj := xs.Get(j)` / `formi := F(form.Get(i), ...)` / `stack := G(..., toSplice.Get(j))`
				if src == "" {
					ast.Inspect(call.Args[0], func(m ast.Node) bool {
						id, ok := m.(*ast.Ident)
						if !ok {
							return true
						}
						ast.Inspect(f.Body, func(k ast.Node) bool {
							as, ok := k.(*ast.AssignStmt)
							if !ok || len(as.Lhs) != 1 || exprString(as.Lhs[0]) != id.Name || len(as.Rhs) != 1 {
								return true
							}
							ast.Inspect(as.Rhs[0], func(q ast.Node) bool {
								if g, ok := q.(*ast.CallExpr); ok && len(g.Args) == 1 && exprString(g.Args[0]) == j {
									if gs, ok := unparen(g.Fun).(*ast.SelectorExpr); ok && gs.Sel.Name == "Get" {
										src = exprString(gs.X)
									}
								}
								return true
							})
							return true
						})
						return true
					})
				}
			})
			if src == "" {
				return true
			}
			n++
			from0 := false
			if len(init.Rhs) >= 1 {
				if v, isC := constInt(info, init.Rhs[0]); isC && v == 0 {
					from0 = true
				}
			}
			// bound: j < N where N is src.Size() directly, defined in the init, or a local defined as src.Size()
			boundOK := cond.Op == token.LSS && exprString(cond.X) == j
			sizeS := src + ".Size()"
			bs := exprString(cond.Y)
			if bs != sizeS {
				found := false
				for i, l := range init.Lhs {
					if exprString(l) == bs && i < len(init.Rhs) && exprString(init.Rhs[i]) == sizeS {
						found = true
					}
				}
				if id := identOf(cond.Y); id != nil && !found {
					if d := buildDefIndex(info, fd).single(info.Uses[id]); d != nil && exprString(d) == sizeS {
						found = true
					}
				}
				boundOK = boundOK && found
			}
			c.Ob(rule, fmt.Sprintf("%s/splice-loop%d", key, n), f, from0 && boundOK && post.Tok == token.INC, "a spliced list contributes every element, from index 0 to Size()-1, in order")
			return true
		})
		if n < min {
			c.Ob(rule, key+"/splice-loops", fd, false, fmt.Sprintf("%d splice loops found, at least %d expected", n, min))
		}
	}
	checkSpliceLoops(finfo, fq, "fast.Comp.quasiquote", 2)
	if qs := c.P.Func("fast.Comp.quoteUnquoteSplice"); qs != nil {
		checkSpliceLoops(finfo, qs, "fast.Comp.quoteUnquoteSplice", 1)
	}
	if cq := c.P.Func("classic.Env.evalQuasiquoteAst"); cq != nil {
		checkSpliceLoops(c.P.Pkg("classic").TypesInfo, cq, "classic.Env.evalQuasiquoteAst", 1)
	}
	// classic: splice in single-statement context is an error
	if cq := c.P.Func("classic.Env.evalQuasiquoteAst"); cq != nil {
		cinfo := c.P.Pkg("classic").TypesInfo
		okErr := false
		ast.Inspect(cq.Body, func(nd ast.Node) bool {
			cl, ok := nd.(*ast.CaseClause)
			if !ok || len(cl.List) != 1 {
				return true
			}
			if o := usedObj(cinfo, cl.List[0]); o == nil || o.Name() != "UNQUOTE_SPLICE" {
				return true
			}
			for _, st := range cl.Body {
				inspectCalls(st, func(call *ast.CallExpr) {
					if fn := calleeOf(cinfo, call); fn != nil && isErrorHelper(fn) {
						okErr = true
					}
				})
			}
			return true
		})
		c.Ob(rule, "classic.Env.evalQuasiquoteAst/no-splice-outside-list", cq, okErr, "classic: ~unquote_splice outside a list is rejected")
	}
}

// ruleNestedUnquoteWalks (T4): DescendNestedUnquotes and CollectNestedUnquotes follow the same chain.
func ruleNestedUnquoteWalks(c *Ctx, rule string) {
	pk := c.P.Pkg("base")
	if pk == nil {
		c.Ob(rule, "base", nil, false, "package not loaded")
		return
	}
	chain := func(fk string) ([]string, *ast.FuncDecl) {
		fd := c.P.Func(fk)
		if fd == nil {
			return nil, nil
		}
		var out []string
		ast.Inspect(fd.Body, func(nd ast.Node) bool {
			f, ok := nd.(*ast.ForStmt)
			if !ok {
				return true
			}
			var walk func(list []ast.Stmt)
			walk = func(list []ast.Stmt) {
				for _, st := range list {
					switch x := st.(type) {
					case *ast.AssignStmt:
						// form := unquote.Get(0).Get(1) ; form = UnwrapTrivialAst(...)
						if len(x.Rhs) == 1 {
							if _, isCall := unparen(x.Rhs[0]).(*ast.CallExpr); isCall {
								s := exprString(x.Rhs[0])
								if strings.Contains(s, "Get(") || strings.Contains(s, "Unwrap") {
									out = append(out, "def "+exprString(x.Lhs[0])+" "+s)
								}
							}
						}
					case *ast.IfStmt:
						cond := exprString(x.Cond)
						if x.Init != nil {
							if as, ok := x.Init.(*ast.AssignStmt); ok {
								cond = exprString(as.Rhs[0]) + "; " + cond
							}
						}
						cond = strings.ReplaceAll(cond, ".X.Op", ".Op()")
						out = append(out, "if "+cond)
						walk(x.Body.List)
					}
				}
			}
			walk(f.Body.List)
			return false
		})
		return out, fd
	}
	a, fa := chain("base.DescendNestedUnquotes")
	b, _ := chain("base.CollectNestedUnquotes")
	ok := len(a) >= 5 && len(a) == len(b)
	diff := ""
	for i := range a {
		if i < len(b) && a[i] != b[i] {
			ok = false
			diff = fmt.Sprintf("step %d: %q vs %q", i+1, a[i], b[i])
			break
		}
	}
	c.Ob(rule, "base.DescendNestedUnquotes~CollectNestedUnquotes", fa, ok, "the function that counts nested unquotes and the one that collects their tokens continue under the same conditions, so depth == len(tokens) "+diff)
}

// ruleNestedQuoteOrder (T4b): CollectNestedUnquotes records the tokens from the outermost unquote inwards (it appends, then
// descends); MakeNestedQuote therefore rebuilds the stack from the last token to the first, wrapping the innermost first.
func ruleNestedQuoteOrder(c *Ctx, rule string) {
	pk := c.P.Pkg("base")
	if pk == nil {
		return
	}
	info := pk.TypesInfo
	// collection order: in the loop body of CollectNestedUnquotes the append precedes the descent (unquote = expr)
	cf := c.P.Func("base.CollectNestedUnquotes")
	outerFirst := false
	if cf != nil {
		ast.Inspect(cf.Body, func(nd ast.Node) bool {
			f, ok := nd.(*ast.ForStmt)
			if !ok {
				return true
			}
			appendPos, descendPos := token.NoPos, token.NoPos
			ast.Inspect(f.Body, func(m ast.Node) bool {
				if as, ok := m.(*ast.AssignStmt); ok && len(as.Lhs) == 1 && len(as.Rhs) == 1 {
					if call, ok := unparen(as.Rhs[0]).(*ast.CallExpr); ok && exprString(call.Fun) == "append" && appendPos == token.NoPos {
						appendPos = as.Pos()
					}
					if id := identOf(as.Lhs[0]); id != nil && len(cf.Type.Params.List) > 0 && info.Uses[id] == info.Defs[cf.Type.Params.List[0].Names[0]] {
						descendPos = as.Pos()
					}
				}
				return true
			})
			outerFirst = appendPos != token.NoPos && descendPos != token.NoPos && appendPos < descendPos
			return false
		})
	}
	c.Ob(rule, "base.CollectNestedUnquotes/outer-first", cf, outerFirst, "the tokens of a stack of nested unquotes are recorded from the outermost inwards")
	mf := c.P.Func("base.MakeNestedQuote")
	innerFirst := false
	if mf != nil {
		ast.Inspect(mf.Body, func(nd ast.Node) bool {
			f, ok := nd.(*ast.ForStmt)
			if !ok || f.Init == nil || f.Cond == nil || f.Post == nil {
				return true
			}
			init, _ := f.Init.(*ast.AssignStmt)
			cond, _ := unparen(f.Cond).(*ast.BinaryExpr)
			post, _ := f.Post.(*ast.IncDecStmt)
			if init == nil || cond == nil || post == nil || len(init.Rhs) != 1 {
				return true
			}
			i := exprString(init.Lhs[0])
			start := strings.ReplaceAll(exprString(init.Rhs[0]), " ", "")
			v, isC := constInt(info, cond.Y)
			down := strings.HasPrefix(start, "len(") && strings.HasSuffix(start, ")-1") && cond.Op == token.GEQ && isC && v == 0 && post.Tok == token.DEC
			// body wraps the accumulated form with token i
			wraps := false
			inspectCalls(f.Body, func(call *ast.CallExpr) {
				if fn := calleeOf(info, call); fn != nil && fn.Name() == "MakeQuote" {
					for _, a := range call.Args {
						if ix, ok := unparen(a).(*ast.IndexExpr); ok && exprString(ix.Index) == i {
							wraps = true
						}
					}
				}
			})
			innerFirst = down && wraps
			return false
		})
	}
	c.Ob(rule, "base.MakeNestedQuote/inner-first", mf, innerFirst, "the stack is rebuilt from the last recorded token to the first (index len-1 down to 0), wrapping the innermost first")
}

func init() {
	register(&PropDef{
		ID:    "C21",
		Title: "Quote and quasiquote build the documented syntax trees in both interpreters",
		Explanation: "Decided (structural clauses): T1 freshness: every run-time closure built by fast/quasiquote.go applies Set/Append only to nodes it created itself in the same execution (locals obtained from New() or a literal) and never assigns through a captured compile-time tree, so each evaluation returns a fresh tree; " +
			"T2 depth table agreement: in the fast interpreter QUASIQUOTE deepens by one, UNQUOTE / UNQUOTE_SPLICE lift by one and the body is compiled as code exactly when the resulting depth is <= 0; the classic interpreter recurses with depth+1 below QUASIQUOTE, depth-1 below UNQUOTE / UNQUOTE_SPLICE and evaluates a single unquote exactly when depth <= 1 (the same table), and in list context compares the unquote nesting u with the depth (error / rebuild / evaluate for u >, <, == depth); " +
			"T3 splicing: children of a list node are expanded with canSplice = true and children of a fixed-arity node with canSplice = false; every splice loop (fast, fast quote-of-splice, classic) appends elements 0..Size()-1 in order; classic rejects a splice outside a list; " +
			"T4 DescendNestedUnquotes and CollectNestedUnquotes continue under identical conditions (depth == number of collected tokens); the tokens are collected outermost first and MakeNestedQuote rebuilds the stack from the last token to the first. " +
			"Not decided: the tree produced for a given template (pairing of nested unquotes, simplification of trivial blocks), equality of the trees of the two interpreters.",
		Assumptions: []string{"ast2 wrappers: New() allocates a new node (C22)"},
		Rules: []func(*Ctx){func(c *Ctx) {
			ruleQuasiquoteFresh(c, "T1-fresh-tree")
			ruleQuasiquoteDepth(c, "T2-depth-table")
			ruleQuasiquoteSplice(c, "T3-splice")
			ruleNestedUnquoteWalks(c, "T4-nested-walk")
			ruleNestedQuoteOrder(c, "T4-nested-walk")
		}},
		Technique: "AST/type-resolved custom analysis: ownership of mutated nodes inside run-time closures, extraction and comparison of the depth tables of two sibling implementations, loop-shape checks, sibling agreement of two chain walks",
		Mutants: []Mutant{
			{Name: "quasiquote-leaf-shared-between-evaluations", File: "fast/quasiquote.go", Old: "\tif n == 0 {\n\t\treturn exprX1(typ, func(env *Env) xr.Value {\n\t\t\treturn xr.ValueOf(form.New().Interface()).Convert(rtype)\n\t\t}), false", New: "\tif n == 0 {\n\t\tret := xr.ValueOf(form.Interface()).Convert(rtype)\n\t\treturn exprX1(typ, func(env *Env) xr.Value {\n\t\t\treturn ret\n\t\t}), false"},
			{Name: "template-reused-across-evaluations", File: "fast/quasiquote.go", Old: "\t\treturn exprX1(typ, func(env *Env) xr.Value {\n\t\t\tout := form.New().(AstWithSlice)\n", New: "\t\treturn exprX1(typ, func(env *Env) xr.Value {\n\t\t\tout := form\n", Canary: true},
			{Name: "unquote-splice-does-not-lift", File: "fast/quasiquote.go", Old: "} else if op == etoken.UNQUOTE || op == etoken.UNQUOTE_SPLICE {\n\t\t\t\tdepth--", New: "} else if op == etoken.UNQUOTE {\n\t\t\t\tdepth--", Canary: true},
			{Name: "classic-unquote-evaluated-one-level-early", File: "classic/quasiquote.go", Old: "\t\t\t\tif depth <= 1 {\n\t\t\t\t\ty := env.evalUnquote(in)", New: "\t\t\t\tif depth <= 2 {\n\t\t\t\t\ty := env.evalUnquote(in)"},
			{Name: "classic-nested-quasiquote-keeps-depth", File: "classic/quasiquote.go", Old: "expansion := env.evalQuasiquoteAst(toexpand, depth+1)\n\t\t\t\treturn MakeQuote2", New: "expansion := env.evalQuasiquoteAst(toexpand, depth)\n\t\t\t\treturn MakeQuote2"},
			{Name: "splice-drops-first-element", File: "fast/quasiquote.go", Old: "\t\t\t\t\tfor j := 0; j < n; j++ {\n\t\t\t\t\t\tif xj := xs.Get(j); xj != nil {", New: "\t\t\t\t\tfor j := 1; j < n; j++ {\n\t\t\t\t\t\tif xj := xs.Get(j); xj != nil {"},
			{Name: "node-children-may-splice", File: "fast/quasiquote.go", Old: "fun := c.quasiquote1(form, depth, false).AsX1()", New: "fun := c.quasiquote1(form, depth, true).AsX1()"},
			{Name: "collect-ignores-unquote-splice", File: "base/quasiquote.go", Old: "if op := expr.X.Op; op == etoken.UNQUOTE || op == etoken.UNQUOTE_SPLICE {", New: "if op := expr.X.Op; op == etoken.UNQUOTE {"},
			{Name: "nested-quote-rebuilt-outside-in", File: "base/quasiquote.go", Old: "for i := len(toks) - 1; i >= 0; i-- {", New: "for i := 0; i < len(toks); i++ {"},
			{Name: "compile-threshold-off-by-one", File: "fast/quasiquote.go", Old: "\t\t\tif depth <= 0 {\n\t\t\t\tif debug {\n\t\t\t\t\tc.Debugf(\"Quasiquote[%d]%s compiling", New: "\t\t\tif depth <= 1 {\n\t\t\t\tif debug {\n\t\t\t\t\tc.Debugf(\"Quasiquote[%d]%s compiling"},
		},
	})
}
