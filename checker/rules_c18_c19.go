package main

// C18 (option independence, E10 confinement) and C19 (debugger command table, E6).

import (
	"fmt"
	"go/ast"
	"go/constant"
	"go/token"
	"go/types"
	"sort"
	"strings"
)

// optionReaders lists, per function, the references to the constant base.<opt>.
func optionReaders(c *Ctx, opt string) map[string][]ast.Node {
	out := map[string][]ast.Node{}
	for _, pk := range c.P.All {
		if !strings.HasPrefix(pk.PkgPath, modPath) {
			continue
		}
		info := pk.TypesInfo
		for _, f := range pk.Syntax {
			for _, d := range f.Decls {
				fd, ok := d.(*ast.FuncDecl)
				if !ok || fd.Body == nil {
					continue
				}
				if fd.Name.Name == "init" && strings.HasSuffix(c.P.Fset.Position(fd.Pos()).Filename, "x_package.go") {
					continue // reflection table exporting the constants to interpreted code
				}
				ast.Inspect(fd.Body, func(n ast.Node) bool {
					if id, ok := n.(*ast.Ident); ok {
						if cst, ok := info.Uses[id].(*types.Const); ok && cst.Name() == opt && cst.Pkg() != nil && strings.HasSuffix(cst.Pkg().Path(), "/base") {
							out[funcKey(pk, fd)] = append(out[funcKey(pk, fd)], id)
						}
					}
					return true
				})
			}
		}
	}
	return out
}

func ruleOptionConfinement(c *Ctx) {
	// the reader sets below were enumerated from the tree and confirmed by reading: each function is part of
	// the REPL driver, the declaration collector, the command-line set up, or returns a final result
	collect := []string{"base.Globals.CollectAst", "base.Globals.CollectNode", "classic.Interp.parseEvalPrint", "classic.Env.Parse", "classic.Env.classicEval", "classic.Interp.ParseEvalPrint", "cmd.Cmd.Init", "cmd.Cmd.Main", "cmd.Cmd.EvalFileOrDir", "cmd.Cmd.EvalDir", "fast.Interp.Parse", "fast.cmdOptForceEval"}
	allowed := map[string][]string{
		"OptCollectDeclarations": collect,
		"OptCollectStatements":   collect,
		"OptTrapPanic":           {"base.NewGlobals", "classic.Interp.ParseEvalPrint", "cmd.Cmd.Init", "cmd.Cmd.Main", "cmd_classic.main", "fast/debug.Debugger.Eval", "fast.Interp.beforeEval"},
		"OptPanicStackTrace":     {"classic.Interp.ParseEvalPrint", "cmd.Cmd.Init", "cmd.Cmd.Main", "fast/debug.Debugger.Eval", "fast.Interp.afterEval"},
		"OptKeepUntyped":         {"cmd.Cmd.Init", "fast.CompGlobals.CompileOptions", "fast.Interp.CompileAst", "fast.Interp.RunExpr", "fast.Interp.DebugExpr", "fast.callEval3"},
	}
	var opts []string
	for o := range allowed {
		opts = append(opts, o)
	}
	sort.Strings(opts)
	for _, o := range opts {
		rd := optionReaders(c, o)
		al := map[string]bool{}
		for _, a := range allowed[o] {
			al[a] = true
		}
		var keys []string
		for k := range rd {
			keys = append(keys, k)
		}
		sort.Strings(keys)
		for _, k := range keys {
			c.Ob("N1-option-readers", o+" in "+k, rd[k][0], al[k], "option "+o+" is consulted only by the REPL driver / collector / command line set up, never by code that compiles or executes programs")
		}
		if len(keys) == 0 {
			c.Ob("N1-option-readers", o, nil, false, "no reader found: anchor missing")
		}
	}
	// OptDebugger: what depends on it may only be the debugger's own bookkeeping
	rd := optionReaders(c, "OptDebugger")
	var keys []string
	for k := range rd {
		keys = append(keys, k)
	}
	sort.Strings(keys)
	for _, k := range keys {
		if strings.HasPrefix(k, "cmd.") || strings.HasPrefix(k, "fast/debug.") || k == "base.NewGlobals" {
			c.ObTrivial("N2-debugger-confinement", k, rd[k][0], true, "set-up or debugger code")
			continue
		}
		fd := c.P.Func(k)
		pk := c.P.PkgOfFunc(k)
		if fd == nil || pk == nil {
			continue
		}
		info := pk.TypesInfo
		for _, id := range rd[k] {
			// the enclosing if statement (or boolean expression) controlled by the option
			var ctl ast.Node
			ast.Inspect(fd.Body, func(n ast.Node) bool {
				if ifs, ok := n.(*ast.IfStmt); ok && containsNode(ifs.Cond, id) {
					ctl = ifs
				}
				return true
			})
			if ctl == nil {
				// e.g. const CtrlCDebug = OptDebugger | OptCtrlCEnterDebugger in Run.interrupt: only chooses the signal kind
				c.Ob("N2-debugger-confinement", k+"/expr", id, k == "fast.Run.interrupt", "OptDebugger used outside an if statement")
				continue
			}
			ifs := ctl.(*ast.IfStmt)
			var bad []string
			check := func(n ast.Node) {
				if n == nil {
					return
				}
				ast.Inspect(n, func(m ast.Node) bool {
					switch x := m.(type) {
					case *ast.AssignStmt:
						// the parser keeps a copy of the sources for the debugger's listing
						if (x.Tok == token.OR_ASSIGN || x.Tok == token.AND_NOT_ASSIGN) && len(x.Rhs) == 1 {
							if o := usedObj(info, x.Rhs[0]); o != nil && o.Name() == "CopySources" {
								return true
							}
						}
						for _, l := range x.Lhs {
							if sel, ok := unparen(l).(*ast.SelectorExpr); ok && sel.Sel.Name == "DebugComp" {
								continue
							}
							if lid := identOf(l); lid != nil {
								o := info.Uses[lid]
								if o == nil {
									o = info.Defs[lid]
								}
								if o != nil && isNamedType(o.Type(), "fast", "Comp") && neverDereferenced(info, fd, o) {
									continue
								}
							}
							bad = append(bad, exprString(l))
						}
					case *ast.CallExpr:
						if fn := calleeOf(info, x); fn != nil {
							bad = append(bad, "call "+fn.Name())
						}
					case *ast.IncDecStmt:
						bad = append(bad, exprString(x.X)+x.Tok.String())
					case *ast.SendStmt, *ast.GoStmt, *ast.DeferStmt:
						bad = append(bad, "effect")
					case *ast.ReturnStmt, *ast.BranchStmt:
						bad = append(bad, "control transfer")
					}
					return true
				})
			}
			check(ifs.Body)
			check(ifs.Else)
			c.Ob("N2-debugger-confinement", k, ifs, len(bad) == 0, fmt.Sprintf("code controlled by OptDebugger only records the compiler for the debugger (a *Comp never dereferenced here, or Env.DebugComp); it performs no call, return or other assignment %v", bad))
		}
	}
	// readers of Env.DebugComp
	for _, pk := range c.P.All {
		if !strings.HasPrefix(pk.PkgPath, modPath) {
			continue
		}
		info := pk.TypesInfo
		for _, f := range pk.Syntax {
			for _, d := range f.Decls {
				fd, ok := d.(*ast.FuncDecl)
				if !ok || fd.Body == nil {
					continue
				}
				lhs := map[ast.Expr]bool{}
				ast.Inspect(fd.Body, func(n ast.Node) bool {
					if as, ok := n.(*ast.AssignStmt); ok {
						for _, l := range as.Lhs {
							lhs[unparen(l)] = true
						}
					}
					return true
				})
				ast.Inspect(fd.Body, func(n ast.Node) bool {
					sel, ok := n.(*ast.SelectorExpr)
					if !ok || sel.Sel.Name != "DebugComp" || lhs[sel] {
						return true
					}
					if _, isF := fieldSel(info, sel, "DebugComp"); !isF {
						return true
					}
					k := funcKey(pk, fd)
					okR := k == "fast.singleStep" || strings.HasPrefix(k, "fast/debug.")
					c.Ob("N2-debugcomp-readers", k, sel, okR, "Env.DebugComp is read only by the single-step hook and the debugger package")
					return true
				})
			}
		}
	}
}

func neverDereferenced(info *types.Info, fd *ast.FuncDecl, o types.Object) bool {
	ok := true
	ast.Inspect(fd.Body, func(n ast.Node) bool {
		if sel, isSel := n.(*ast.SelectorExpr); isSel && identOf(sel.X) != nil && info.Uses[identOf(sel.X)] == o {
			ok = false
		}
		if st, isStar := n.(*ast.StarExpr); isStar && identOf(st.X) != nil && info.Uses[identOf(st.X)] == o {
			ok = false
		}
		return true
	})
	return ok
}

// ruleDebuggerTable: command -> depth table against the single stop test.
func ruleDebuggerTable(c *Ctx) {
	pk := c.P.Pkg("fast")
	info := pk.TypesInfo
	ss := c.P.Func("fast.singleStep")
	if ss == nil {
		c.Ob("B1-debugger-table", "fast.singleStep", nil, false, "anchor function not found")
		return
	}
	// stop test: env.CallDepth OP run.DebugDepth
	adj := -99
	var stop *ast.IfStmt
	ast.Inspect(ss.Body, func(n ast.Node) bool {
		ifs, ok := n.(*ast.IfStmt)
		if !ok {
			return true
		}
		b, ok := unparen(ifs.Cond).(*ast.BinaryExpr)
		if !ok {
			return true
		}
		_, l := fieldSel(info, b.X, "CallDepth")
		_, r := fieldSel(info, b.Y, "DebugDepth")
		if l && r {
			stop = ifs
			switch b.Op {
			case token.LSS:
				adj = 0
			case token.LEQ:
				adj = 1
			}
		}
		return true
	})
	c.Ob("B1-debugger-table", "fast.singleStep/stop-test", ss, adj != -99, "the debugger is invoked for a statement exactly when its CallDepth is below (or at most) run.DebugDepth")
	if adj == -99 {
		return
	}
	// the stop test invokes the debugger hook
	hook := false
	inspectCalls(stop.Body, func(call *ast.CallExpr) {
		if funcFullName(calleeOf(info, call)) == "fast.Interp.debug" {
			hook = true
		}
	})
	c.Ob("B1-debugger-table", "fast.singleStep/hook", stop, hook, "the stop test leads to the debugger hook")
	// singleStep dispatches exactly one statement
	disp := 0
	inspectCalls(ss.Body, func(call *ast.CallExpr) {
		if id := identOf(call.Fun); id != nil {
			if v, ok := info.Uses[id].(*types.Var); ok && isNamedType(v.Type(), "fast", "Stmt") {
				disp++
			}
		}
	})
	c.Ob("B1-debugger-table", "fast.singleStep/one-statement", ss, disp == 1, fmt.Sprintf("singleStep executes exactly one statement per call (%d dispatches)", disp))
	// depth of a DebugOp constant / expression
	depthOf := func(pkShort string, e ast.Expr, dinfo *types.Info) (kind string, k int64) {
		e = unparen(e)
		// named constants DebugOpStep / DebugOpContinue
		if o := usedObj(dinfo, e); o != nil {
			if v, ok := o.(*types.Var); ok && v.Pkg() != nil {
				// package-level var: find its initialiser in package fast
				name := v.Name()
				var init ast.Expr
				for _, p2 := range []string{"fast/debug", "fast"} {
					pk2 := c.P.Pkg(p2)
					if pk2 == nil {
						continue
					}
					for _, f := range pk2.Syntax {
						ast.Inspect(f, func(n ast.Node) bool {
							if vs, ok := n.(*ast.ValueSpec); ok {
								for i, nm := range vs.Names {
									if nm.Name == name && i < len(vs.Values) {
										init = vs.Values[i]
										dinfo = pk2.TypesInfo
									}
								}
							}
							return true
						})
					}
					if init != nil {
						break
					}
				}
				if init != nil {
					e = unparen(init)
					if id := identOf(e); id != nil || isSelector(e) {
						// alias of fast.DebugOpX
						if o2 := usedObj(dinfo, e); o2 != nil && o2 != o {
							return depthOfNamed(c, o2.Name())
						}
					}
				}
			}
		}
		cl, ok := e.(*ast.CompositeLit)
		if !ok || len(cl.Elts) == 0 {
			return "?", 0
		}
		d := cl.Elts[0]
		if kv, ok := d.(*ast.KeyValueExpr); ok {
			d = kv.Value
		}
		d = unparen(d)
		if tv, ok := dinfo.Types[d]; ok && tv.Value != nil && tv.Value.Kind() == constant.Int {
			v, exact := constant.Int64Val(tv.Value)
			if exact && v > 1<<30 {
				return "any", 0
			}
			if exact && v <= 0 {
				return "none", 0
			}
			return "const", v
		}
		if _, ok := fieldSel(dinfo, d, "CallDepth"); ok {
			return "rel", 0
		}
		if b, ok := d.(*ast.BinaryExpr); ok && b.Op == token.ADD {
			if _, ok := fieldSel(dinfo, b.X, "CallDepth"); ok {
				if v, isC := constInt(dinfo, b.Y); isC {
					return "rel", v
				}
			}
		}
		if b, ok := d.(*ast.BinaryExpr); ok && b.Op == token.SUB {
			if _, ok := fieldSel(dinfo, b.X, "CallDepth"); ok {
				if v, isC := constInt(dinfo, b.Y); isC {
					return "rel", -v
				}
			}
		}
		return "?", 0
	}
	dpk := c.P.Pkg("fast/debug")
	if dpk == nil {
		c.Ob("B1-debugger-table", "fast/debug", nil, false, "package fast/debug not loaded")
		return
	}
	dinfo := dpk.TypesInfo
	want := map[string]string{
		"cmdStep":     "any",   // next executed statement at any call depth
		"cmdNext":     "rel:1", // stops iff depth <= current  <=>  depth < current+1
		"cmdFinish":   "rel:0", // stops iff depth < current
		"cmdContinue": "none",
	}
	var names []string
	for n := range want {
		names = append(names, n)
	}
	sort.Strings(names)
	for _, n := range names {
		fd := c.P.Func("fast/debug.Debugger." + n)
		if fd == nil {
			c.Ob("B1-debugger-table", "fast/debug.Debugger."+n, nil, false, "anchor function not found")
			continue
		}
		got := "?"
		ast.Inspect(fd.Body, func(nd ast.Node) bool {
			if r, ok := nd.(*ast.ReturnStmt); ok && len(r.Results) == 1 {
				kind, k := depthOf("fast/debug", r.Results[0], dinfo)
				switch kind {
				case "rel":
					got = fmt.Sprintf("rel:%d", k+int64(adj))
				default:
					got = kind
				}
			}
			return true
		})
		c.Ob("B1-debugger-table", "fast/debug.Debugger."+n, fd, got == want[n], fmt.Sprintf("with the stop test `CallDepth %s DebugDepth` the command requests depth class %s (documented behaviour needs %s: any = every statement, rel:1 = same or shallower depth, rel:0 = shallower depth, none = breakpoints only)", map[int]string{0: "<", 1: "<="}[adj], got, want[n]))
	}
	// a DebugOp produced without consulting the user (synthetic statements are skipped silently) keeps the current
	// stepping depth: every DebugOp literal outside the command functions has Depth = run.DebugDepth
	nsilent := 0
	for _, fdl := range c.P.FuncsOf("fast/debug") {
		fdl := fdl
		name := fdl.Name.Name
		if strings.HasPrefix(name, "cmd") {
			continue
		}
		ast.Inspect(fdl.Body, func(nd ast.Node) bool {
			cl, ok := nd.(*ast.CompositeLit)
			if !ok || dinfo.TypeOf(cl) == nil || !isNamedType(types.Unalias(dinfo.TypeOf(cl)), "fast", "DebugOp") || len(cl.Elts) == 0 {
				return true
			}
			d := cl.Elts[0]
			if kv, ok := d.(*ast.KeyValueExpr); ok {
				d = kv.Value
			}
			nsilent++
			_, keeps := fieldSel(dinfo, d, "DebugDepth")
			c.Ob("B1-debugger-table", "fast/debug."+name+"/silent-op", cl, keeps, "an operation returned without asking the user leaves the stepping depth unchanged (Depth = run.DebugDepth)")
			return true
		})
	}
	if nsilent == 0 {
		c.Ob("B1-debugger-table", "fast/debug/silent-op", nil, false, "no silent debugger operation found: anchor missing")
	}
	// applyDebugOp: Depth > 0 turns single-stepping on, otherwise off, and records the depth
	ap := c.P.Func("fast.Run.applyDebugOp")
	okAp := false
	if ap != nil {
		sets, onoff := false, false
		ast.Inspect(ap.Body, func(n ast.Node) bool {
			switch x := n.(type) {
			case *ast.AssignStmt:
				if len(x.Lhs) == 1 {
					if _, ok := fieldSel(info, x.Lhs[0], "DebugDepth"); ok {
						if _, ok := fieldSel(info, x.Rhs[0], "Depth"); ok {
							sets = true
						}
					}
				}
			case *ast.IfStmt:
				if b, ok := unparen(x.Cond).(*ast.BinaryExpr); ok && b.Op == token.GTR {
					if _, ok := fieldSel(info, b.X, "Depth"); ok {
						if v, isC := constInt(info, b.Y); isC && v == 0 {
							onoff = true
						}
					}
				}
			}
			return true
		})
		okAp = sets && onoff
	}
	c.Ob("B1-debugger-table", "fast.Run.applyDebugOp", ap, okAp, "a requested depth > 0 turns single-stepping on and is recorded in run.DebugDepth; depth <= 0 turns it off")
	// CallDepth bookkeeping
	ne := c.P.Func("fast.newEnv4Func")
	okCD := false
	if ne != nil {
		ast.Inspect(ne.Body, func(n ast.Node) bool {
			if as, ok := n.(*ast.AssignStmt); ok && len(as.Lhs) == 1 {
				if _, ok := fieldSel(info, as.Lhs[0], "CallDepth"); ok {
					if b, ok := unparen(as.Rhs[0]).(*ast.BinaryExpr); ok && b.Op == token.ADD {
						if _, ok := fieldSel(info, b.X, "CallDepth"); ok {
							if v, isC := constInt(info, b.Y); isC && v == 1 {
								okCD = true
							}
						}
					}
				}
			}
			return true
		})
	}
	c.Ob("B1-debugger-table", "fast.newEnv4Func/call-depth", ne, okCD, "a function frame's CallDepth is its caller's CallDepth + 1")
}

func isSelector(e ast.Expr) bool { _, ok := e.(*ast.SelectorExpr); return ok }

func depthOfNamed(c *Ctx, name string) (string, int64) {
	pk := c.P.Pkg("fast")
	var kind string
	var k int64
	for _, f := range pk.Syntax {
		ast.Inspect(f, func(n ast.Node) bool {
			vs, ok := n.(*ast.ValueSpec)
			if !ok {
				return true
			}
			for i, nm := range vs.Names {
				if nm.Name != name || i >= len(vs.Values) {
					continue
				}
				cl, ok := unparen(vs.Values[i]).(*ast.CompositeLit)
				if !ok || len(cl.Elts) == 0 {
					continue
				}
				d := cl.Elts[0]
				if kv, ok := d.(*ast.KeyValueExpr); ok {
					d = kv.Value
				}
				if tv, ok := pk.TypesInfo.Types[d]; ok && tv.Value != nil {
					v, exact := constant.Int64Val(tv.Value)
					switch {
					case exact && v > 1<<30:
						kind = "any"
					case exact && v <= 0:
						kind = "none"
					default:
						kind, k = "const", v
					}
				}
			}
			return true
		})
	}
	if kind == "" {
		kind = "?"
	}
	return kind, k
}

// ruleCollectorState (N3): the fields of base.Globals that the declaration collector writes (derived from
// CollectNode) are option-dependent state. They are read only by the file writer and the command line driver,
// never by code of the fast interpreter that compiles or executes programs.
func ruleCollectorState(c *Ctx) {
	rule := "N3-collector-state"
	bpk := c.P.Pkg("base")
	cn := c.P.Func("base.Globals.CollectNode")
	if bpk == nil || cn == nil {
		c.Ob(rule, "base.Globals.CollectNode", nil, false, "anchor function not found")
		return
	}
	binfo := bpk.TypesInfo
	fields := map[*types.Var]bool{}
	ast.Inspect(cn.Body, func(n ast.Node) bool {
		as, ok := n.(*ast.AssignStmt)
		if !ok {
			return true
		}
		for _, l := range as.Lhs {
			if s, ok := unparen(l).(*ast.SelectorExpr); ok {
				if sel := binfo.Selections[s]; sel != nil && sel.Kind() == types.FieldVal {
					if fv, ok := sel.Obj().(*types.Var); ok && fieldBelongsTo(fv, "base", "Globals") {
						fields[fv] = true
					}
				}
			}
		}
		return true
	})
	if len(fields) < 4 {
		c.Ob(rule, "base.Globals.CollectNode/fields", cn, false, fmt.Sprintf("%d collector-written fields found, at least 4 expected", len(fields)))
		return
	}
	n := 0
	for _, pk := range c.P.All {
		if !strings.HasPrefix(pk.PkgPath, modPath) || strings.HasSuffix(pk.PkgPath, "/classic") {
			// the classic interpreter keeps its own current package name in the same field (classic/file.go)
			continue
		}
		info := pk.TypesInfo
		for _, f := range pk.Syntax {
			for _, d := range f.Decls {
				fd, ok := d.(*ast.FuncDecl)
				if !ok || fd.Body == nil {
					continue
				}
				k := funcKey(pk, fd)
				lhs := map[ast.Node]bool{}
				ast.Inspect(fd.Body, func(nd ast.Node) bool {
					if as, ok := nd.(*ast.AssignStmt); ok && (as.Tok == token.ASSIGN || as.Tok == token.DEFINE) {
						for _, l := range as.Lhs {
							lhs[unparen(l)] = true
						}
					}
					return true
				})
				seen := map[string]bool{}
				ast.Inspect(fd.Body, func(nd ast.Node) bool {
					s, ok := nd.(*ast.SelectorExpr)
					if !ok || lhs[s] {
						return true
					}
					sel := info.Selections[s]
					if sel == nil || sel.Kind() != types.FieldVal {
						return true
					}
					fv, _ := sel.Obj().(*types.Var)
					if fv == nil || !fields[fv] || seen[fv.Name()] {
						return true
					}
					seen[fv.Name()] = true
					n++
					okR := strings.HasPrefix(k, "cmd.") || k == "base.Globals.CollectNode" || k == "base.Globals.WriteDeclsToStream" || k == "base.Globals.WriteDeclsToFile"
					c.Ob(rule, fv.Name()+" in "+k, s, okR, "Globals."+fv.Name()+" is written by the declaration collector (under OptCollectDeclarations / OptCollectStatements): only the file writer and the command line driver read it")
					return true
				})
			}
		}
	}
	if n < 4 {
		c.Ob(rule, "readers", nil, false, "fewer than 4 readers found: anchor missing")
	}
}

// ruleDebugTermination (B2): a statement list ends with the sentinel spinInterrupt, which signals the return
// only when no signal at all is pending (Signals.IsEmpty()); while single-stepping Signals.Debug is set, so
// a body that falls off its end must be terminated by the single-step executor itself: either the sentinel's
// guard ignores the Debug signal, or singleStep raises SigReturn when env.IP is the last index of env.Code.
func ruleDebugTermination(c *Ctx) {
	rule := "B2-debug-termination"
	pk := c.P.Pkg("fast")
	info := pk.TypesInfo
	sp := c.P.Func("fast.spinInterrupt")
	ss := c.P.Func("fast.singleStep")
	ex := c.P.Func("fast.Code.Exec")
	if sp == nil || ss == nil || ex == nil {
		c.Ob(rule, "fast.spinInterrupt", nil, false, "anchor functions not found")
		return
	}
	// Code.Exec appends the sentinel
	sentinel := false
	inspectCalls(ex.Body, func(call *ast.CallExpr) {
		if id := identOf(call.Fun); id != nil && id.Name == "append" && len(call.Args) == 2 {
			if a := identOf(call.Args[1]); a != nil && info.Uses[a] != nil && info.Uses[a].Name() == "spinInterrupt" {
				sentinel = true
			}
		}
	})
	c.Ob(rule, "fast.Code.Exec/sentinel", ex, sentinel, "every executable statement list ends with the sentinel spinInterrupt")
	setsReturn := func(body ast.Node) (*ast.AssignStmt, bool) {
		var found *ast.AssignStmt
		ast.Inspect(body, func(n ast.Node) bool {
			if as, ok := n.(*ast.AssignStmt); ok && len(as.Lhs) == 1 && len(as.Rhs) == 1 {
				if _, isSync := fieldSel(info, as.Lhs[0], "Sync"); isSync {
					if o := usedObj(info, as.Rhs[0]); o != nil && o.Name() == "SigReturn" {
						found = as
					}
				}
			}
			return true
		})
		return found, found != nil
	}
	// (A) sentinel guard independent of Debug
	okA := false
	if as, ok := setsReturn(sp.Body); ok {
		for _, anc := range enclosingStack(sp.Body, as) {
			if ifs, isIf := anc.(*ast.IfStmt); isIf && containsNode(ifs.Body, as) {
				usesIsEmpty := false
				inspectCalls(ifs.Cond, func(call *ast.CallExpr) {
					if fn := calleeOf(info, call); fn != nil && fn.Name() == "IsEmpty" {
						usesIsEmpty = true
					}
				})
				mentionsDebug := false
				ast.Inspect(ifs.Cond, func(n ast.Node) bool {
					if s, ok := n.(*ast.SelectorExpr); ok && s.Sel.Name == "Debug" {
						mentionsDebug = true
					}
					return true
				})
				okA = !usesIsEmpty && !mentionsDebug
			}
		}
	}
	// (B) singleStep raises SigReturn at the last index, before executing the statement
	okB := false
	if as, ok := setsReturn(ss.Body); ok {
		for _, anc := range enclosingStack(ss.Body, as) {
			ifs, isIf := anc.(*ast.IfStmt)
			if !isIf || !containsNode(ifs.Body, as) {
				continue
			}
			dead := false
			for _, a := range andAtoms(ifs.Cond) {
				if tv, ok := info.Types[a]; ok && tv.Value != nil && tv.Value.String() == "false" {
					dead = true
				}
			}
			for _, a := range andAtoms(ifs.Cond) {
				b, ok := unparen(a).(*ast.BinaryExpr)
				if !ok || b.Op != token.EQL || dead {
					continue
				}
				_, isIP := fieldSel(info, b.X, "IP")
				if sub, ok := unparen(b.Y).(*ast.BinaryExpr); isIP && ok && sub.Op == token.SUB {
					if v, isC := constInt(info, sub.Y); isC && v == 1 {
						if call, ok := unparen(sub.X).(*ast.CallExpr); ok && len(call.Args) == 1 && exprString(call.Fun) == "len" {
							if _, isCode := fieldSel(info, call.Args[0], "Code"); isCode {
								okB = true
							}
						}
					}
				}
			}
		}
	}
	c.Ob(rule, "fast.singleStep/end-of-code", ss, okA || okB, "a body that falls off its end terminates while single-stepping: the sentinel signals the return independently of Signals.Debug, or singleStep raises SigReturn when env.IP == len(env.Code)-1")
}

// ruleDebugCompRecorded (N4): the compiler recorded in a frame for the debugger (Env.DebugComp, directly or through
// the debugComp parameter of newEnv4Func) is nil, or a *Comp whose every non-nil assignment is controlled by a
// test of exactly base.OptDebugger. A frame whose compiler is not recorded is invisible to step/next/finish.
func ruleDebugCompRecorded(c *Ctx) {
	rule := "N4-debugcomp-recorded"
	pk := c.P.Pkg("fast")
	info := pk.TypesInfo
	// condition tests exactly OptDebugger
	testsDebugger := func(cond ast.Expr) bool {
		var opts []string
		ast.Inspect(cond, func(n ast.Node) bool {
			if id, ok := n.(*ast.Ident); ok {
				if cst, ok := info.Uses[id].(*types.Const); ok && strings.HasPrefix(cst.Name(), "Opt") {
					opts = append(opts, cst.Name())
				}
			}
			return true
		})
		if len(opts) != 1 || opts[0] != "OptDebugger" {
			return false
		}
		b, ok := unparen(cond).(*ast.BinaryExpr)
		if !ok || b.Op != token.NEQ {
			return false
		}
		v, isC := constInt(info, b.Y)
		return isC && v == 0
	}
	guardedBy := func(fd *ast.FuncDecl, n ast.Node) bool {
		stack := enclosingStack(fd.Body, n)
		for i, anc := range stack {
			if ifs, ok := anc.(*ast.IfStmt); ok && i+1 < len(stack) && stack[i+1] == ast.Node(ifs.Body) && testsDebugger(ifs.Cond) {
				return true
			}
		}
		return false
	}
	nsites := 0
	seen := map[string]bool{}
	pe := provFor(c, "fast", false)
	var checkValueIn func(fd *ast.FuncDecl, what string, at ast.Node, e ast.Expr, depth int)
	checkValueIn = func(fd *ast.FuncDecl, what string, at ast.Node, e ast.Expr, depth int) {
		fk := funcKey(pk, fd)
		{
			e = unparen(e)
			if exprString(e) == "nil" {
				return
			}
			nsites++
			key := fk + "/" + what + " " + exprString(e)
			if seen[key] {
				return
			}
			seen[key] = true
			if guardedBy(fd, at) {
				c.Ob(rule, key, at, true, "a compiler is recorded in the frame only under `Options&base.OptDebugger != 0`")
				return
			}
			id := identOf(e)
			if id == nil {
				c.Ob(rule, key, at, false, "the recorded compiler is not a plain variable")
				return
			}
			o := info.Uses[id]
			// a parameter of a helper: judged at every static caller
			if pi := paramIdxOf(info, fd, o); pi >= 0 && depth < 3 {
				callers := pe.callers[info.Defs[fd.Name]]
				if len(callers) > 0 {
					for _, cs := range callers {
						if pi < len(cs.call.Args) {
							checkValueIn(cs.fd, "arg of "+fd.Name.Name, cs.call, cs.call.Args[pi], depth+1)
						}
					}
					return
				}
			}
			// a local variable: every assignment of a non-nil value is guarded by OptDebugger
			if v, ok := o.(*types.Var); ok && v.Parent() != nil && v.Parent() != pk.Types.Scope() && paramIdxOf(info, fd, o) < 0 && !isRecv(info, fd, o) {
				okAll, n := true, 0
				ast.Inspect(fd.Body, func(nd ast.Node) bool {
					as, ok := nd.(*ast.AssignStmt)
					if !ok {
						return true
					}
					for i, l := range as.Lhs {
						if lid := identOf(l); lid != nil && (info.Uses[lid] == o || info.Defs[lid] == o) && i < len(as.Rhs) && exprString(as.Rhs[i]) != "nil" {
							n++
							if !guardedBy(fd, as) {
								okAll = false
							}
						}
					}
					return true
				})
				c.Ob(rule, key, at, okAll && n > 0, fmt.Sprintf("%s is nil unless assigned under `Options&base.OptDebugger != 0` (%d assignments)", id.Name, n))
				return
			}
			// the compiler itself (receiver / parameter): the write must be guarded
			c.Ob(rule, key, at, guardedBy(fd, at), "a compiler is recorded in the frame only under `Options&base.OptDebugger != 0`")
		}
	}
	for _, fd := range c.P.FuncsOf("fast") {
		fd := fd
		fk := funcKey(pk, fd)
		if fk == "fast.newEnv4Func" {
			continue // forwards its parameter; the callers are checked
		}
		checkValue := func(what string, at ast.Node, e ast.Expr) { checkValueIn(fd, what, at, e, 0) }
		ast.Inspect(fd.Body, func(nd ast.Node) bool {
			switch x := nd.(type) {
			case *ast.AssignStmt:
				for i, l := range x.Lhs {
					if _, ok := fieldSel(info, l, "DebugComp"); ok && i < len(x.Rhs) {
						checkValue("DebugComp =", x, x.Rhs[i])
					}
				}
			case *ast.CallExpr:
				if fn := calleeOf(info, x); fn != nil && funcFullName(fn) == "fast.newEnv4Func" && len(x.Args) == 4 {
					checkValue("newEnv4Func", x, x.Args[3])
				}
			}
			return true
		})
	}
	if nsites < 500 {
		c.Ob(rule, "sites", nil, false, fmt.Sprintf("%d sites recording a compiler found, at least 500 expected: anchor missing", nsites))
	}
}

func isRecv(info *types.Info, fd *ast.FuncDecl, o types.Object) bool {
	if fd.Recv == nil {
		return false
	}
	for _, f := range fd.Recv.List {
		for _, nm := range f.Names {
			if info.Defs[nm] == o {
				return true
			}
		}
	}
	return false
}
