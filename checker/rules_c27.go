package main

// C27: source positions through the line-offset file set.

import (
	"fmt"
	"go/ast"
	"go/token"
	"go/types"
	"sort"
	"strings"
)

func ruleFilesetOverrides(c *Ctx, rule string) {
	pk := c.P.Pkg("go/etoken")
	if pk == nil {
		c.Ob(rule, "go/etoken", nil, false, "package not loaded")
		return
	}
	info := pk.TypesInfo
	tokPk := pk.Imports["go/token"]
	if tokPk == nil {
		c.Ob(rule, "go/token", nil, false, "go/token not imported by go/etoken")
		return
	}
	isPosition := func(t types.Type) bool {
		n, ok := t.(*types.Named)
		return ok && n.Obj().Name() == "Position" && n.Obj().Pkg() == tokPk.Types
	}
	nchecked := 0
	for _, tn := range []string{"File", "FileSet"} {
		wobj, _ := pk.Types.Scope().Lookup(tn).(*types.TypeName)
		sobj, _ := tokPk.Types.Scope().Lookup(tn).(*types.TypeName)
		if wobj == nil || sobj == nil {
			c.Ob(rule, "go/etoken."+tn, nil, false, "wrapper or standard type not found")
			continue
		}
		wms := types.NewMethodSet(types.NewPointer(wobj.Type()))
		sms := types.NewMethodSet(types.NewPointer(sobj.Type()))
		for i := 0; i < sms.Len(); i++ {
			m := sms.At(i).Obj().(*types.Func)
			if !m.Exported() {
				continue
			}
			sig := m.Type().(*types.Signature)
			returnsPosition := false
			for j := 0; j < sig.Results().Len(); j++ {
				if isPosition(sig.Results().At(j).Type()) {
					returnsPosition = true
				}
			}
			if !returnsPosition {
				continue
			}
			nchecked++
			sel := wms.Lookup(pk.Types, m.Name())
			declared := sel != nil && len(sel.Index()) == 1 && sel.Obj().Pkg() == pk.Types
			c.Ob(rule, "go/etoken."+tn+"."+m.Name(), nil, declared, "a method of the embedded go/token."+tn+" that returns a token.Position is overridden by the wrapper (a promoted one would report unshifted lines)")
		}
	}
	if nchecked < 4 {
		c.Ob(rule, "go/etoken/position-methods", nil, false, fmt.Sprintf("%d Position-returning methods found in go/token, at least 4 expected", nchecked))
	}
	// File.PositionFor: delegate with the same arguments, then shift the line by f.line when valid; nothing else changes
	pf := c.P.Func("go/etoken.File.PositionFor")
	okPF := false
	var detail []string
	if pf != nil {
		var params []string
		for _, f := range pf.Type.Params.List {
			for _, nm := range f.Names {
				params = append(params, nm.Name)
			}
		}
		delegates, shifts, other := false, false, 0
		ast.Inspect(pf.Body, func(nd ast.Node) bool {
			switch x := nd.(type) {
			case *ast.AssignStmt:
				for i, l := range x.Lhs {
					if s, ok := unparen(l).(*ast.SelectorExpr); ok {
						if s.Sel.Name == "Line" && x.Tok == token.ADD_ASSIGN && i < len(x.Rhs) {
							if _, isLine := fieldSel(info, x.Rhs[i], "line"); isLine {
								// guarded by IsValid only
								g := false
								for _, anc := range enclosingStack(pf.Body, x) {
									if ifs, ok := anc.(*ast.IfStmt); ok {
										g = strings.HasSuffix(exprString(ifs.Cond), ".IsValid()") && ifs.Else == nil
									}
								}
								shifts = g
								continue
							}
						}
						other++
						detail = append(detail, "writes "+exprString(l))
					}
				}
				if len(x.Rhs) == 1 {
					if call, ok := unparen(x.Rhs[0]).(*ast.CallExpr); ok {
						if fn := calleeOf(info, call); fn != nil && funcFullName(fn) == "go/token.File.PositionFor" && len(call.Args) == len(params) {
							same := true
							for i, a := range call.Args {
								if exprString(a) != params[i] {
									same = false
								}
							}
							delegates = same
						}
					}
				}
			}
			return true
		})
		okPF = delegates && shifts && other == 0
	}
	c.Ob(rule, "go/etoken.File.PositionFor/shift", pf, okPF, "the wrapper asks the embedded file with the same arguments and adds the file's starting line to a valid position, changing nothing else "+strings.Join(detail, "; "))
	// delegation chain
	deleg := func(fk, callee string, wantArgs []string) {
		fd := c.P.Func(fk)
		ok := false
		if fd != nil {
			var params []string
			for _, f := range fd.Type.Params.List {
				for _, nm := range f.Names {
					params = append(params, nm.Name)
				}
			}
			inspectCalls(fd.Body, func(call *ast.CallExpr) {
				if fn := calleeOf(info, call); fn != nil && funcFullName(fn) == callee && len(call.Args) == len(wantArgs) {
					same := true
					for i, a := range call.Args {
						w := wantArgs[i]
						if strings.HasPrefix(w, "$") {
							idx := int(w[1] - '0')
							if idx >= len(params) || exprString(a) != params[idx] {
								same = false
							}
						} else if exprString(a) != w {
							same = false
						}
					}
					if same {
						ok = true
					}
				}
			})
		}
		c.Ob(rule, fk+"/delegates", fd, ok, "delegates to "+callee+" with its own arguments")
	}
	deleg("go/etoken.File.Position", "go/etoken.File.PositionFor", []string{"$0", "true"})
	deleg("go/etoken.FileSet.Position", "go/etoken.FileSet.PositionFor", []string{"$0", "true"})
	deleg("go/etoken.FileSet.PositionFor", "go/etoken.File.PositionFor", []string{"$0", "$1"})
	deleg("go/etoken.FileSet.PositionFor", "go/etoken.FileSet.File", []string{"$0"})
	deleg("go/etoken.FileSet.Source", "go/etoken.File.Source", []string{"$0"})
	// Source: the same offset is subtracted again, and the index is bounds-checked
	sf := c.P.Func("go/etoken.File.Source")
	okSrc := false
	if sf != nil {
		var lineVar string
		ast.Inspect(sf.Body, func(nd ast.Node) bool {
			if as, ok := nd.(*ast.AssignStmt); ok && len(as.Lhs) == 1 && len(as.Rhs) == 1 {
				if b, ok := unparen(as.Rhs[0]).(*ast.BinaryExpr); ok && b.Op == token.SUB && strings.HasSuffix(exprString(b.X), ".Line") {
					if _, isLine := fieldSel(info, b.Y, "line"); isLine {
						lineVar = exprString(as.Lhs[0])
					}
				}
			}
			return true
		})
		if lineVar != "" {
			ast.Inspect(sf.Body, func(nd ast.Node) bool {
				ifs, ok := nd.(*ast.IfStmt)
				if !ok {
					return true
				}
				atoms := map[string]bool{}
				for _, a := range andAtoms(ifs.Cond) {
					atoms[strings.ReplaceAll(exprString(a), " ", "")] = true
				}
				if atoms[lineVar+">0"] && (atoms[lineVar+"<=len(source)"] || atoms[lineVar+"<=len(f.source)"]) {
					for _, st := range ifs.Body.List {
						if r, ok := st.(*ast.ReturnStmt); ok && len(r.Results) >= 1 {
							if ix, ok := unparen(r.Results[0]).(*ast.IndexExpr); ok && strings.ReplaceAll(exprString(ix.Index), " ", "") == lineVar+"-1" {
								okSrc = true
							}
						}
					}
				}
				return true
			})
		}
	}
	c.Ob(rule, "go/etoken.File.Source/unshift", sf, okSrc, "the source line shown for a position is source[pos.Line - f.line - 1], inside its bounds")
	// AddFile records the starting line and registers the wrapper under the inner file; File looks it up there
	af := c.P.Func("go/etoken.FileSet.AddFile")
	okAF := false
	if af != nil {
		var params []string
		for _, f := range af.Type.Params.List {
			for _, nm := range f.Names {
				params = append(params, nm.Name)
			}
		}
		innerArgs, lit, reg := false, false, false
		var innerVar, wrapVar string
		ast.Inspect(af.Body, func(nd ast.Node) bool {
			switch x := nd.(type) {
			case *ast.AssignStmt:
				if len(x.Lhs) == 1 && len(x.Rhs) == 1 {
					if call, ok := unparen(x.Rhs[0]).(*ast.CallExpr); ok {
						if fn := calleeOf(info, call); fn != nil && funcFullName(fn) == "go/token.FileSet.AddFile" && len(call.Args) == 3 && len(params) == 4 {
							innerArgs = exprString(call.Args[0]) == params[0] && exprString(call.Args[1]) == params[1] && exprString(call.Args[2]) == params[2]
							innerVar = exprString(x.Lhs[0])
						}
					}
					e := unparen(x.Rhs[0])
					if u, ok := e.(*ast.UnaryExpr); ok {
						e = u.X
					}
					if cl, ok := e.(*ast.CompositeLit); ok && isNamedType(info.TypeOf(cl), "go/etoken", "File") && len(params) == 4 {
						vals := map[string]string{}
						for _, el := range cl.Elts {
							if kv, ok := el.(*ast.KeyValueExpr); ok {
								vals[exprString(kv.Key)] = exprString(kv.Value)
							}
						}
						lit = vals["line"] == params[3] && vals["File"] == innerVar && innerVar != ""
						wrapVar = exprString(x.Lhs[0])
					}
					if ix, ok := unparen(x.Lhs[0]).(*ast.IndexExpr); ok {
						if _, isMap := fieldSel(info, ix.X, "filemap"); isMap {
							reg = exprString(ix.Index) == innerVar && exprString(x.Rhs[0]) == wrapVar
						}
					}
				}
			}
			return true
		})
		okAF = innerArgs && lit && reg
	}
	c.Ob(rule, "go/etoken.FileSet.AddFile", af, okAF, "AddFile creates the inner file with (name, base, size), records the starting line in the wrapper and registers it under the inner file")
	// only AddFile sets File.line
	w := fieldWriters(c, "go/etoken", "File", "line")
	var ws []string
	for k := range w {
		ws = append(ws, k)
	}
	sort.Strings(ws)
	okW := len(ws) == 1 && ws[0] == "go/etoken.FileSet.AddFile#lit"
	c.Ob(rule, "go/etoken.File.line/writers", nil, okW, fmt.Sprintf("the starting line of a file is set once, when it is added (writers: %v)", ws))
}

// ruleLineCounter: how the per-chunk starting line reaches the parser.
func ruleLineCounter(c *Ctx, rule string) {
	bpk := c.P.Pkg("base")
	// ParseBytes: parser.Init(fileset, filepath, g.Line, src)
	pb := c.P.Func("base.Globals.ParseBytes")
	okInit := false
	if pb != nil && bpk != nil {
		info := bpk.TypesInfo
		var src string
		for _, f := range pb.Type.Params.List {
			for _, nm := range f.Names {
				src = nm.Name
			}
		}
		inspectCalls(pb.Body, func(call *ast.CallExpr) {
			if fn := calleeOf(info, call); fn != nil && fn.Name() == "Init" && len(call.Args) == 4 {
				_, isLine := fieldSel(info, call.Args[2], "Line")
				_, isFs := fieldSel(info, call.Args[0], "Fileset")
				if isLine && isFs && exprString(call.Args[3]) == src {
					okInit = true
				}
			}
		})
	}
	c.Ob(rule, "base.Globals.ParseBytes/line-offset", pb, okInit, "each chunk is parsed into the interpreter's file set with the number of lines consumed so far (Globals.Line) as its starting line")
	// the parser hands that line to FileSet.AddFile
	ppk := c.P.Pkg("go/parser")
	okAdd := false
	if ppk != nil {
		info := ppk.TypesInfo
		for _, fd := range c.P.FuncsOf("go/parser") {
			if fd.Name.Name != "Init" && fd.Name.Name != "init" {
				continue
			}
			var params []string
			for _, f := range fd.Type.Params.List {
				for _, nm := range f.Names {
					params = append(params, nm.Name)
				}
			}
			inspectCalls(fd.Body, func(call *ast.CallExpr) {
				if fn := calleeOf(info, call); fn != nil && funcFullName(fn) == "go/etoken.FileSet.AddFile" && len(call.Args) == 4 {
					if id := identOf(call.Args[3]); id != nil {
						for _, p := range params {
							if p == id.Name && strings.Contains(strings.ToLower(p), "line") {
								okAdd = true
							}
						}
					}
				}
			})
		}
	}
	c.Ob(rule, "go/parser.Init/line-offset", nil, okAdd, "the parser adds the chunk to the file set with the line offset it was given")
	// fast: afterEval (which advances the counter by the chunk) is deferred at the top of ParseEvalPrint
	fpk := c.P.Pkg("fast")
	pep := c.P.Func("fast.Interp.ParseEvalPrint")
	ae := c.P.Func("fast.Interp.afterEval")
	okDefer, okInc := false, false
	if pep != nil && ae != nil && fpk != nil {
		info := fpk.TypesInfo
		var srcParam string
		for _, f := range pep.Type.Params.List {
			for _, nm := range f.Names {
				srcParam = nm.Name
			}
		}
		// the defer precedes every statement that can evaluate (Parse / CompileAst / RunExpr) and is not nested in a conditional
		deferPos := token.NoPos
		for _, st := range pep.Body.List {
			if ds, ok := st.(*ast.DeferStmt); ok {
				if fn := calleeOf(info, ds.Call); fn != nil && fn.Name() == "afterEval" && len(ds.Call.Args) >= 1 && exprString(ds.Call.Args[0]) == srcParam {
					deferPos = ds.Pos()
				}
			}
		}
		firstWork := token.NoPos
		inspectCalls(pep.Body, func(call *ast.CallExpr) {
			if fn := calleeOf(info, call); fn != nil {
				switch fn.Name() {
				case "Parse", "CompileAst", "RunExpr", "Cmd":
					if firstWork == token.NoPos || call.Pos() < firstWork {
						firstWork = call.Pos()
					}
				}
			}
		})
		// no reassignment of src before the defer
		reassigned := false
		ast.Inspect(pep.Body, func(nd ast.Node) bool {
			if as, ok := nd.(*ast.AssignStmt); ok && as.Pos() < deferPos {
				for _, l := range as.Lhs {
					if exprString(l) == srcParam {
						reassigned = true
					}
				}
			}
			return true
		})
		okDefer = deferPos != token.NoPos && firstWork != token.NoPos && deferPos < firstWork && !reassigned
		// afterEval: IncLine(src) unconditionally, first
		var aeSrc string
		if len(ae.Type.Params.List) > 0 && len(ae.Type.Params.List[0].Names) > 0 {
			aeSrc = ae.Type.Params.List[0].Names[0].Name
		}
		for _, st := range ae.Body.List {
			if es, ok := st.(*ast.ExprStmt); ok {
				if call, ok := es.X.(*ast.CallExpr); ok {
					if fn := calleeOf(info, call); fn != nil && fn.Name() == "IncLine" && len(call.Args) == 1 && exprString(call.Args[0]) == aeSrc {
						okInc = true
					}
				}
			}
		}
	}
	c.Ob(rule, "fast.Interp.ParseEvalPrint/after-eval-deferred", pep, okDefer, "the line counter is advanced by the whole chunk through a defer registered before the chunk is parsed or evaluated: it advances once per chunk on every path, including errors")
	c.Ob(rule, "fast.Interp.afterEval/inc-line", ae, okInc, "afterEval advances the counter by the number of newlines of the chunk, unconditionally")
	// every byte of a chunk is counted once: Read() counts the comments before the first token (src[0:firstToken]),
	// so the evaluator (whose afterEval counts what it is given) must receive the rest, src[firstToken:]
	for _, short := range []string{"fast", "classic"} {
		pk := c.P.Pkg(short)
		rd := c.P.Func(short + ".Interp.Read")
		rp := c.P.Func(short + ".Interp.ReadParseEvalPrint")
		if pk == nil || rd == nil || rp == nil {
			c.Ob(rule, short+".Interp.ReadParseEvalPrint", nil, false, "anchor functions not found")
			continue
		}
		info := pk.TypesInfo
		countsPrefix := false
		inspectCalls(rd.Body, func(call *ast.CallExpr) {
			if fn := calleeOf(info, call); fn != nil && fn.Name() == "IncLine" && len(call.Args) == 1 {
				if sl, ok := unparen(call.Args[0]).(*ast.SliceExpr); ok && sl.High != nil && (sl.Low == nil || exprString(sl.Low) == "0") {
					countsPrefix = true
				}
			}
		})
		passesSuffix, passesWhole := false, false
		inspectCalls(rp.Body, func(call *ast.CallExpr) {
			if fn := calleeOf(info, call); fn != nil && fn.Name() == "ParseEvalPrint" && len(call.Args) == 1 {
				if sl, ok := unparen(call.Args[0]).(*ast.SliceExpr); ok && sl.Low != nil && sl.High == nil {
					passesSuffix = true
				} else {
					passesWhole = true
				}
			}
		})
		okPart := countsPrefix && passesSuffix && !passesWhole || !countsPrefix && passesWhole && !passesSuffix
		c.Ob(rule, short+".Interp.ReadParseEvalPrint/partition", rp, okPart, fmt.Sprintf("each line of a chunk is counted exactly once: either Read() counts the comments before the first token and the evaluator receives the rest, or Read() counts nothing of an evaluated chunk and the evaluator receives it whole (Read counts prefix: %v; evaluator gets suffix: %v, whole: %v)", countsPrefix, passesSuffix, passesWhole))
	}
	// IncLine counts newlines
	opk := c.P.Pkg("base/output")
	il := c.P.Func("base/output.Stringer.IncLine")
	okCount := false
	if il != nil && opk != nil {
		info := opk.TypesInfo
		ast.Inspect(il.Body, func(nd ast.Node) bool {
			if as, ok := nd.(*ast.AssignStmt); ok && as.Tok == token.ADD_ASSIGN && len(as.Lhs) == 1 {
				if _, isLine := fieldSel(info, as.Lhs[0], "Line"); isLine {
					if call, ok := unparen(as.Rhs[0]).(*ast.CallExpr); ok && len(call.Args) == 2 {
						if fn := calleeOf(info, call); fn != nil && funcFullName(fn) == "strings.Count" {
							if s, ok := constString(info, call.Args[1]); ok && s == "\n" {
								okCount = true
							}
						}
					}
				}
			}
			return true
		})
	}
	c.Ob(rule, "base/output.Stringer.IncLine", il, okCount, "IncLine adds the number of '\\n' in its argument to the counter")
	// a new source (file, reader, REPL) resets the counter
	for _, fk := range []string{"fast.Interp.EvalReader", "fast.Interp.ReplStdin"} {
		fd := c.P.Func(fk)
		if fd == nil || fpk == nil {
			continue
		}
		info := fpk.TypesInfo
		reset := false
		ast.Inspect(fd.Body, func(nd ast.Node) bool {
			if as, ok := nd.(*ast.AssignStmt); ok && len(as.Lhs) == 1 && len(as.Rhs) == 1 {
				if _, isLine := fieldSel(info, as.Lhs[0], "Line"); isLine {
					if v, isC := constInt(info, as.Rhs[0]); isC && v == 0 {
						reset = true
					}
				}
			}
			return true
		})
		c.Ob(rule, fk+"/reset", fd, reset, "a new input source starts counting lines from 0")
	}
}

func init() {
	register(&PropDef{
		ID:    "C27",
		Title: "Reported source positions are exact across chunks and line offsets",
		Explanation: "Decided (structural clauses): L1 every exported method of the embedded go/token.File / go/token.FileSet that returns a token.Position (enumerated from go/token's type information) is overridden — declared, not promoted — by etoken.File / etoken.FileSet; File.PositionFor asks the embedded file with the same arguments and adds the file's starting line to a valid position, changing nothing else; Position / FileSet.Position / FileSet.PositionFor / FileSet.Source delegate with their own arguments; File.Source subtracts the same offset and indexes the stored lines inside their bounds; AddFile creates the inner file with (name, base, size), records the starting line and registers the wrapper; File.line has no other writer; " +
			"L2 line counter: Globals.ParseBytes parses each chunk into the interpreter's file set with Globals.Line as starting line and the parser passes it to FileSet.AddFile; ParseEvalPrint registers afterEval(src) with defer before the chunk is parsed or evaluated and afterEval advances the counter by the chunk's newlines unconditionally (so it advances once per chunk on every path, including errors); IncLine counts '\\n'; EvalReader and the REPL reset the counter; each line of a chunk is counted exactly once in both interpreters (either Read counts the leading comments and the evaluator gets the rest, or the evaluator gets the whole chunk and Read counts nothing of it). " +
			"L4q the operator position of a quote / unquote expression is the position parameter of parser.MakeQuote, never assigned there; P1p the statement list and the position table of compiled code are assigned together and under the same test. " +
			"Not decided: the position text in a given error message, positions of macro-generated nodes.",
		Assumptions: []string{"go/token.File.PositionFor and go/token.FileSet.AddFile as documented"},
		Rules: []func(*Ctx){func(c *Ctx) {
			ruleFilesetOverrides(c, "L1-fileset-offset")
			ruleLineCounter(c, "L2-line-counter")
			ruleQuoteOpPos(c, "L4q-quote-oppos")
			ruleParallelFields(c, "P1p-parallel-fields", "fast", "Code", "List", "DebugPos")
		}},
		Technique: "AST/type-resolved custom analysis: method-set comparison (declared vs promoted) from go/types, delegation-argument agreement, ownership of the offset field, must-precede (defer before work)",
		Mutants: []Mutant{
			{Name: "quote-operator-position-overwritten", File: "go/parser/quote.go", Old: "\t\tvar pos, end token.Pos\n", New: "\t\tvar end token.Pos\n"},
			{Name: "position-table-truncated-under-inverted-test", File: "fast/code.go", Old: "\tif len(code.DebugPos) > n {", New: "\tif len(code.DebugPos) < n {"},
			{Name: "position-not-shifted", File: "go/etoken/fileset.go", Old: "\tif pos.IsValid() {\n\t\tpos.Line += f.line\n\t}\n", New: "", Canary: true},
			{Name: "fileset-position-uses-inner-fileset", File: "go/etoken/fileset.go", Old: "func (s *FileSet) Position(p token.Pos) (pos token.Position) {\n\treturn s.PositionFor(p, true)\n}", New: "func (s *FileSet) Position(p token.Pos) (pos token.Position) {\n\treturn s.FileSet.PositionFor(p, true)\n}", Canary: true},
			{Name: "file-position-override-removed", File: "go/etoken/fileset.go", Old: "func (f *File) Position(p token.Pos) (pos token.Position) {\n\treturn f.PositionFor(p, true)\n}", New: ""},
			{Name: "source-line-not-unshifted", File: "go/etoken/fileset.go", Old: "line := pos.Line - f.line", New: "line := pos.Line"},
			{Name: "chunk-parsed-at-line-zero", File: "base/global.go", Old: "parser.Init(g.Fileset, g.Filepath, g.Line, src)", New: "parser.Init(g.Fileset, g.Filepath, 0, src)"},
			{Name: "line-counter-skipped-on-error", File: "fast/repl.go", Old: "\tt1, trap, duration := ir.beforeEval()\n\tdefer ir.afterEval(src, &callAgain, &trap, t1, duration)\n", New: "\tt1, trap, duration := ir.beforeEval()\n\tdefer func() {\n\t\tif !trap {\n\t\t\tir.afterEval(src, &callAgain, &trap, t1, duration)\n\t\t}\n\t}()\n"},
			{Name: "leading-comment-lines-counted-twice", File: "fast/repl.go", Old: "\tif firstToken < 0 {\n\t\tg.IncLine(src)\n\t}\n", New: "\tif firstToken < 0 {\n\t\tg.IncLine(src)\n\t} else if firstToken > 0 {\n\t\tg.IncLine(src[0:firstToken])\n\t}\n"},
			{Name: "addfile-forgets-line", File: "go/etoken/fileset.go", Old: "f := &File{File: innerf, line: line}", New: "f := &File{File: innerf}"},
			{Name: "adjusted-flag-dropped", File: "go/etoken/fileset.go", Old: "pos = f.PositionFor(p, adjusted)\n\t}\n\treturn\n}", New: "pos = f.PositionFor(p, true)\n\t}\n\treturn\n}"},
		},
	})
}
