package main

// C36: code completion.

import (
	"fmt"
	"go/ast"
	"go/token"
	"go/types"
	"strings"
)

var c36Funcs = []string{"fast.Comp.completeWord", "fast.Comp.completeLastWord", "fast.Comp.listFieldsAndMethods"}

// enclosingStack returns the ancestors of target below root (outermost first).
func enclosingStack(root ast.Node, target ast.Node) []ast.Node {
	var stack, found []ast.Node
	ast.Inspect(root, func(n ast.Node) bool {
		if n == nil {
			stack = stack[:len(stack)-1]
			return true
		}
		if found != nil {
			return false
		}
		stack = append(stack, n)
		if n == target {
			found = append([]ast.Node{}, stack...)
			return false
		}
		return true
	})
	return found
}

// rulePrefixGuard (Q1): every name added to a completion list passed the prefix test against the typed word.
func rulePrefixGuard(c *Ctx, rule string) {
	pk := c.P.Pkg("fast")
	info := pk.TypesInfo
	for _, fk := range c36Funcs {
		fd := c.P.Func(fk)
		if fd == nil {
			c.Ob(rule, fk, nil, false, "anchor function not found")
			continue
		}
		// the word/prefix parameter: the last string parameter
		var word types.Object
		for _, f := range fd.Type.Params.List {
			for _, nm := range f.Names {
				if o := info.Defs[nm]; o != nil && isStringType(o.Type()) {
					word = o
				}
			}
		}
		if word == nil {
			c.Ob(rule, fk+"/word", fd, false, "word parameter not found")
			continue
		}
		// size variables: size := len(word)
		sizeVars := map[types.Object]bool{}
		ast.Inspect(fd.Body, func(n ast.Node) bool {
			switch x := n.(type) {
			case *ast.AssignStmt:
				for i, r := range x.Rhs {
					if isLenOf(info, r, word) && i < len(x.Lhs) {
						if id := identOf(x.Lhs[i]); id != nil {
							if o := info.Defs[id]; o != nil {
								sizeVars[o] = true
							}
						}
					}
				}
			case *ast.ValueSpec:
				for i, r := range x.Values {
					if isLenOf(info, r, word) && i < len(x.Names) {
						sizeVars[info.Defs[x.Names[i]]] = true
					}
				}
			}
			return true
		})
		// size variables must not be reassigned
		ast.Inspect(fd.Body, func(n ast.Node) bool {
			if as, ok := n.(*ast.AssignStmt); ok && as.Tok != token.DEFINE {
				for _, l := range as.Lhs {
					if id := identOf(l); id != nil && sizeVars[info.Uses[id]] {
						delete(sizeVars, info.Uses[id])
					}
				}
			}
			return true
		})
		isSize := func(e ast.Expr) bool {
			if isLenOf(info, e, word) {
				return true
			}
			id := identOf(e)
			return id != nil && sizeVars[info.Uses[id]]
		}
		n := 0
		ast.Inspect(fd.Body, func(nd ast.Node) bool {
			as, ok := nd.(*ast.AssignStmt)
			if !ok {
				return true
			}
			_, val, isApp := appendLocal(info, as)
			if !isApp {
				return true
			}
			n++
			// guard: an enclosing if (or `if name := ...; cond`) with conjuncts len(V) >= size and V[:size] == word
			stack := enclosingStack(fd.Body, as)
			okLen, okEq := false, false
			valS := exprString(val)
			for i, anc := range stack {
				ifs, isIf := anc.(*ast.IfStmt)
				if !isIf || i+1 >= len(stack) || stack[i+1] != ast.Node(ifs.Body) {
					continue
				}
				for _, a := range andAtoms(ifs.Cond) {
					b, ok := unparen(a).(*ast.BinaryExpr)
					if !ok {
						continue
					}
					switch b.Op {
					case token.GEQ:
						if call, ok := unparen(b.X).(*ast.CallExpr); ok && len(call.Args) == 1 && exprString(call.Fun) == "len" && exprString(call.Args[0]) == valS && isSize(b.Y) {
							okLen = true
						}
					case token.EQL:
						if sl, ok := unparen(b.X).(*ast.SliceExpr); ok && sl.Low == nil && sl.High != nil && !sl.Slice3 && exprString(sl.X) == valS && isSize(sl.High) {
							if id := identOf(b.Y); id != nil && info.Uses[id] == word {
								okEq = true
							}
						}
						if call, ok := unparen(b.X).(*ast.CallExpr); ok {
							if fn := calleeOf(info, call); fn != nil && funcFullName(fn) == "strings.HasPrefix" {
								okLen, okEq = true, true
							}
						}
					}
				}
				if call, ok := unparen(ifs.Cond).(*ast.CallExpr); ok {
					if fn := calleeOf(info, call); fn != nil && fn.Pkg() != nil && fn.Pkg().Path() == "strings" && fn.Name() == "HasPrefix" && len(call.Args) == 2 && exprString(call.Args[0]) == valS {
						if id := identOf(call.Args[1]); id != nil && info.Uses[id] == word {
							okLen, okEq = true, true
						}
					}
				}
			}
			c.Ob(rule, fmt.Sprintf("%s/append(%s)", fk, valS), as, okLen && okEq, "a name is offered only if it is at least as long as the typed word and starts with it (len(name) >= len(word) && name[:len(word)] == word)")
			return true
		})
		c.Ob(rule, fk+"/appends", fd, n > 0, fmt.Sprintf("%d completion appends found", n))
	}
}

func isLenOf(info *types.Info, e ast.Expr, o types.Object) bool {
	call, ok := unparen(e).(*ast.CallExpr)
	if !ok || len(call.Args) != 1 {
		return false
	}
	if id := identOf(call.Fun); id == nil || id.Name != "len" {
		return false
	} else if _, isB := info.Uses[id].(*types.Builtin); !isB {
		return false
	}
	id := identOf(call.Args[0])
	return id != nil && info.Uses[id] == o
}

// appendLocal: `v = append(v, X)` on a local slice variable
func appendLocal(info *types.Info, as *ast.AssignStmt) (types.Object, ast.Expr, bool) {
	if len(as.Lhs) != 1 || len(as.Rhs) != 1 {
		return nil, nil, false
	}
	id := identOf(as.Lhs[0])
	call, ok := unparen(as.Rhs[0]).(*ast.CallExpr)
	if id == nil || !ok || len(call.Args) != 2 || call.Ellipsis != token.NoPos {
		return nil, nil, false
	}
	if f := identOf(call.Fun); f == nil || f.Name != "append" {
		return nil, nil, false
	} else if _, isB := info.Uses[f].(*types.Builtin); !isB {
		return nil, nil, false
	}
	if a := identOf(call.Args[0]); a == nil || info.Uses[a] != info.Uses[id] {
		return nil, nil, false
	}
	return info.Uses[id], call.Args[1], true
}

// ruleSortedUnique (Q2/Q3): completion results pass through sortUnique, which sorts before removing adjacent duplicates.
func ruleSortedUnique(c *Ctx, rule string) {
	pk := c.P.Pkg("fast")
	info := pk.TypesInfo
	for _, fk := range []string{"fast.Comp.completeWord", "fast.Comp.completeLastWord"} {
		fd := c.P.Func(fk)
		if fd == nil {
			c.Ob(rule, fk, nil, false, "anchor function not found")
			continue
		}
		n := 0
		ast.Inspect(fd.Body, func(nd ast.Node) bool {
			if _, isLit := nd.(*ast.FuncLit); isLit {
				return false
			}
			r, ok := nd.(*ast.ReturnStmt)
			if !ok || len(r.Results) != 1 {
				return true
			}
			n++
			okR := exprString(r.Results[0]) == "nil"
			if call, ok := unparen(r.Results[0]).(*ast.CallExpr); ok {
				if fn := calleeOf(info, call); fn != nil && funcFullName(fn) == "fast.sortUnique" {
					okR = true
				}
			}
			c.Ob(rule, fk+"/return", r, okR, "every result of the completion function is passed through sortUnique")
			return true
		})
		if n == 0 {
			c.Ob(rule, fk+"/return", fd, false, "no return statement found")
		}
	}
	// the entry points only forward results of those functions
	for _, fk := range []string{"fast.Comp.CompleteWords", "fast.Comp.completeWords"} {
		fd := c.P.Func(fk)
		if fd == nil {
			c.Ob(rule, fk, nil, false, "anchor function not found")
			continue
		}
		di := buildDefIndex(info, fd)
		ast.Inspect(fd.Body, func(nd ast.Node) bool {
			r, ok := nd.(*ast.ReturnStmt)
			if !ok || len(r.Results) != 1 {
				return true
			}
			var srcs []ast.Expr
			if id := identOf(r.Results[0]); id != nil && id.Name != "nil" {
				for _, d := range di.defs[info.Uses[id]] {
					if d != nil {
						srcs = append(srcs, d)
					}
				}
			} else {
				srcs = []ast.Expr{r.Results[0]}
			}
			okR := true
			for _, s := range srcs {
				if exprString(s) == "nil" {
					continue
				}
				call, ok := unparen(s).(*ast.CallExpr)
				if !ok {
					okR = false
					continue
				}
				fn := calleeOf(info, call)
				switch funcFullName(fn) {
				case "fast.Comp.completeWord", "fast.Comp.completeLastWord", "fast.Comp.completeWords", "fast.sortUnique":
				default:
					okR = false
				}
			}
			c.Ob(rule, fk+"/forwards", r, okR, "the entry point returns only nil or the result of a sorted-unique completion function")
			return true
		})
	}
	// sortUnique: sort dominates the de-duplication loop, which compares neighbours
	su := c.P.Func("fast.sortUnique")
	if su == nil {
		c.Ob(rule, "fast.sortUnique", nil, false, "anchor function not found")
		return
	}
	var param types.Object
	if len(su.Type.Params.List) == 1 && len(su.Type.Params.List[0].Names) == 1 {
		param = info.Defs[su.Type.Params.List[0].Names[0]]
	}
	sortPos, loopPos := token.NoPos, token.NoPos
	var loop *ast.ForStmt
	ast.Inspect(su.Body, func(nd ast.Node) bool {
		switch x := nd.(type) {
		case *ast.CallExpr:
			if fn := calleeOf(info, x); fn != nil && funcFullName(fn) == "sort.Strings" && len(x.Args) == 1 {
				if id := identOf(x.Args[0]); id != nil && info.Uses[id] == param && sortPos == token.NoPos {
					sortPos = x.Pos()
				}
			}
		case *ast.ForStmt:
			if loopPos == token.NoPos {
				loopPos = x.Pos()
				loop = x
			}
		}
		return true
	})
	c.Ob(rule, "fast.sortUnique/sort-first", su, sortPos != token.NoPos && loopPos != token.NoPos && sortPos < loopPos && sameBlock(su.Body, sortPos, loopPos), "the slice is sorted before the duplicate-removal loop, in the same block")
	okLoop := false
	if loop != nil {
		// if s := vec[i]; s != prev { vec[j] = s; prev = s; j++ }
		for _, st := range loop.Body.List {
			ifs, ok := st.(*ast.IfStmt)
			if !ok {
				continue
			}
			b, ok := unparen(ifs.Cond).(*ast.BinaryExpr)
			if !ok || b.Op != token.NEQ {
				continue
			}
			cur, prev := identOf(b.X), identOf(b.Y)
			if cur == nil || prev == nil {
				continue
			}
			stores, updates, incs := false, false, false
			var jObj types.Object
			for _, s2 := range ifs.Body.List {
				switch y := s2.(type) {
				case *ast.AssignStmt:
					if len(y.Lhs) == 1 && len(y.Rhs) == 1 {
						if ix, ok := unparen(y.Lhs[0]).(*ast.IndexExpr); ok && identOf(ix.X) != nil && info.Uses[identOf(ix.X)] == param && exprString(y.Rhs[0]) == cur.Name {
							stores = true
							if jid := identOf(ix.Index); jid != nil {
								jObj = info.Uses[jid]
							}
						}
						if exprString(y.Lhs[0]) == prev.Name && exprString(y.Rhs[0]) == cur.Name {
							updates = true
						}
					}
				case *ast.IncDecStmt:
					if y.Tok == token.INC && identOf(y.X) != nil && info.Uses[identOf(y.X)] == jObj && jObj != nil {
						incs = true
					}
				}
			}
			okLoop = stores && updates && incs
		}
	}
	c.Ob(rule, "fast.sortUnique/dedup", su, okLoop, "an element is kept exactly when it differs from the previously kept one (store, remember, advance)")
}

func sameBlock(body *ast.BlockStmt, a, b token.Pos) bool {
	ok := false
	ast.Inspect(body, func(n ast.Node) bool {
		bl, isB := n.(*ast.BlockStmt)
		if !isB {
			return true
		}
		ia, ib := -1, -1
		for i, st := range bl.List {
			if st.Pos() <= a && a < st.End() {
				ia = i
			}
			if st.Pos() <= b && b < st.End() {
				ib = i
			}
		}
		if ia >= 0 && ib >= 0 && ia < ib {
			// a must be a direct statement of this block (not nested in a conditional)
			if es, isE := bl.List[ia].(*ast.ExprStmt); isE && es.Pos() == a {
				ok = true
			}
		}
		return true
	})
	return ok
}

// ruleCompletionScope (Q4): which names are searched.
func ruleCompletionScope(c *Ctx, rule string) {
	pk := c.P.Pkg("fast")
	info := pk.TypesInfo
	fd := c.P.Func("fast.Comp.completeWord")
	if fd == nil {
		c.Ob(rule, "fast.Comp.completeWord", nil, false, "anchor function not found")
		return
	}
	// for co := c; co != nil; co = co.Outer { range co.Binds; range co.Types }
	okWalk := false
	ranged := map[string]bool{}
	ast.Inspect(fd.Body, func(nd ast.Node) bool {
		f, ok := nd.(*ast.ForStmt)
		if !ok || f.Init == nil || f.Cond == nil || f.Post == nil {
			return true
		}
		init, _ := f.Init.(*ast.AssignStmt)
		cond, _ := unparen(f.Cond).(*ast.BinaryExpr)
		post, _ := f.Post.(*ast.AssignStmt)
		if init == nil || cond == nil || post == nil || len(init.Lhs) != 1 || len(post.Lhs) != 1 {
			return true
		}
		v := identOf(init.Lhs[0])
		recv := fd.Recv.List[0].Names[0]
		if v == nil || identOf(init.Rhs[0]) == nil || info.Uses[identOf(init.Rhs[0])] != info.Defs[recv] {
			return true
		}
		if cond.Op != token.NEQ || exprString(cond.X) != v.Name || exprString(cond.Y) != "nil" {
			return true
		}
		if exprString(post.Lhs[0]) != v.Name || exprString(post.Rhs[0]) != v.Name+".Outer" {
			return true
		}
		okWalk = true
		for _, st := range f.Body.List {
			if rs, ok := st.(*ast.RangeStmt); ok {
				if s, ok := unparen(rs.X).(*ast.SelectorExpr); ok && exprString(s.X) == v.Name {
					ranged[s.Sel.Name] = true
				}
			}
		}
		return true
	})
	c.Ob(rule, "fast.Comp.completeWord/scope-walk", fd, okWalk, "names are searched in every scope from the current one outwards (co = c; co != nil; co = co.Outer)")
	c.Ob(rule, "fast.Comp.completeWord/binds-and-types", fd, ranged["Binds"] && ranged["Types"], "each scope contributes both its bindings and its types")
	kw := false
	ast.Inspect(fd.Body, func(nd ast.Node) bool {
		if rs, ok := nd.(*ast.RangeStmt); ok {
			if id := identOf(rs.X); id != nil && id.Name == "keywords" {
				if _, isPkgVar := info.Uses[id].(*types.Var); isPkgVar {
					kw = true
				}
			}
		}
		return true
	})
	c.Ob(rule, "fast.Comp.completeWord/keywords", fd, kw, "keywords are offered")
	// completeLastWord: package members = Binds and Types of the import
	lw := c.P.Func("fast.Comp.completeLastWord")
	rangedImp := map[string]bool{}
	if lw != nil {
		ast.Inspect(lw.Body, func(nd ast.Node) bool {
			if rs, ok := nd.(*ast.RangeStmt); ok {
				if s, ok := unparen(rs.X).(*ast.SelectorExpr); ok {
					if t := info.TypeOf(s.X); t != nil && isPtr(t) && isNamedType(t, "fast", "Import") {
						rangedImp[s.Sel.Name] = true
					}
				}
			}
			return true
		})
	}
	c.Ob(rule, "fast.Comp.completeLastWord/package-members", lw, rangedImp["Binds"] && rangedImp["Types"], "members of an imported package are its bindings and its types")
	// listFieldsAndMethods: methods of a field's type are promoted only when the field is embedded; the
	// type whose Kind is tested / dereferenced in the method collector is the type whose methods are listed
	lf := c.P.Func("fast.Comp.listFieldsAndMethods")
	if lf == nil {
		c.Ob(rule, "fast.Comp.listFieldsAndMethods", nil, false, "anchor function not found")
		return
	}
	var collector types.Object
	var collectorLit *ast.FuncLit
	ast.Inspect(lf.Body, func(nd ast.Node) bool {
		if as, ok := nd.(*ast.AssignStmt); ok && len(as.Lhs) == 1 && len(as.Rhs) == 1 {
			if lit, ok := unparen(as.Rhs[0]).(*ast.FuncLit); ok && collectorLit == nil {
				// the literal that calls NumMethod
				has := false
				inspectCalls(lit.Body, func(call *ast.CallExpr) {
					if fn := calleeOf(info, call); fn != nil && fn.Name() == "NumMethod" {
						has = true
					}
				})
				if has {
					collectorLit = lit
					collector = info.Defs[identOf(as.Lhs[0])]
				}
			}
		}
		return true
	})
	if collectorLit == nil {
		c.Ob(rule, "fast.Comp.listFieldsAndMethods/collector", lf, false, "method collector closure not found")
		return
	}
	// subject consistency
	var subj types.Object
	okSubj := true
	var detail []string
	ast.Inspect(collectorLit.Body, func(nd ast.Node) bool {
		call, ok := nd.(*ast.CallExpr)
		if !ok {
			return true
		}
		s, ok := unparen(call.Fun).(*ast.SelectorExpr)
		if !ok || identOf(s.X) == nil {
			return true
		}
		switch s.Sel.Name {
		case "NumMethod", "Method", "Kind", "Elem":
			o := info.Uses[identOf(s.X)]
			if !isNamedType(o.Type(), "xreflect", "Type") {
				return true
			}
			detail = append(detail, identOf(s.X).Name+"."+s.Sel.Name)
			if subj == nil {
				subj = o
			} else if subj != o {
				okSubj = false
			}
		}
		return true
	})
	isParam := false
	if subj != nil {
		for _, f := range collectorLit.Type.Params.List {
			for _, nm := range f.Names {
				if info.Defs[nm] == subj {
					isParam = true
				}
			}
		}
	}
	// the collector dereferences a pointer type before enumerating: the method set is attached to the element type
	derefs := false
	ast.Inspect(collectorLit.Body, func(nd ast.Node) bool {
		ifs, ok := nd.(*ast.IfStmt)
		if !ok {
			return true
		}
		b, ok := unparen(ifs.Cond).(*ast.BinaryExpr)
		if !ok || b.Op != token.EQL {
			return true
		}
		call, ok := unparen(b.X).(*ast.CallExpr)
		if !ok {
			return true
		}
		s, ok := unparen(call.Fun).(*ast.SelectorExpr)
		if !ok || s.Sel.Name != "Kind" || identOf(s.X) == nil || info.Uses[identOf(s.X)] != subj {
			return true
		}
		if o := usedObj(info, b.Y); o == nil || o.Name() != "Ptr" {
			return true
		}
		for _, st := range ifs.Body.List {
			if as, ok := st.(*ast.AssignStmt); ok && len(as.Lhs) == 1 && identOf(as.Lhs[0]) != nil && info.Uses[identOf(as.Lhs[0])] == subj {
				if c2, ok := unparen(as.Rhs[0]).(*ast.CallExpr); ok {
					if s2, ok := unparen(c2.Fun).(*ast.SelectorExpr); ok && s2.Sel.Name == "Elem" && identOf(s2.X) != nil && info.Uses[identOf(s2.X)] == subj {
						derefs = true
					}
				}
			}
		}
		return true
	})
	c.Ob(rule, "fast.Comp.listFieldsAndMethods/collector-deref", collectorLit, derefs, "the method collector replaces a pointer type by its element type before enumerating methods (an embedded *T promotes the methods of T)")
	c.Ob(rule, "fast.Comp.listFieldsAndMethods/collector-subject", collectorLit, okSubj && isParam, "the method collector tests, dereferences and enumerates one and the same type: its own parameter ("+strings.Join(detail, ", ")+")")
	// calls of the collector inside the field visitor are guarded by field.Anonymous
	n := 0
	ast.Inspect(lf.Body, func(nd ast.Node) bool {
		lit, ok := nd.(*ast.FuncLit)
		if !ok || lit == collectorLit {
			return true
		}
		// the visitor literal: has a parameter of type xreflect.StructField
		var fieldObj types.Object
		for _, f := range lit.Type.Params.List {
			for _, nm := range f.Names {
				if o := info.Defs[nm]; o != nil && isNamedType(o.Type(), "xreflect", "StructField") {
					fieldObj = o
				}
			}
		}
		if fieldObj == nil {
			return true
		}
		inspectCalls(lit.Body, func(call *ast.CallExpr) {
			id := identOf(call.Fun)
			if id == nil || info.Uses[id] != collector {
				return
			}
			n++
			guarded := false
			stack := enclosingStack(lit.Body, call)
			for i, anc := range stack {
				ifs, isIf := anc.(*ast.IfStmt)
				if !isIf || i+1 >= len(stack) || stack[i+1] != ast.Node(ifs.Body) {
					continue
				}
				for _, a := range andAtoms(ifs.Cond) {
					if s, ok := unparen(a).(*ast.SelectorExpr); ok && s.Sel.Name == "Anonymous" && identOf(s.X) != nil && info.Uses[identOf(s.X)] == fieldObj {
						guarded = true
					}
				}
			}
			c.Ob(rule, "fast.Comp.listFieldsAndMethods/embedded-only", call, guarded, "the methods of a field's type are offered only when the field is embedded (field.Anonymous): t.f.M does not make t.M valid")
		})
		return true
	})
	if n == 0 {
		c.Ob(rule, "fast.Comp.listFieldsAndMethods/embedded-only", lf, false, "no promotion site found: anchor missing")
	}
}

// ruleCompletionSplit (Q6): head and tail split the line at one and the same clamped position.
func ruleCompletionSplit(c *Ctx, rule string) {
	pk := c.P.Pkg("fast")
	info := pk.TypesInfo
	fd := c.P.Func("fast.Interp.CompleteWords")
	if fd == nil {
		c.Ob(rule, "fast.Interp.CompleteWords", nil, false, "anchor function not found")
		return
	}
	var line, pos types.Object
	for _, f := range fd.Type.Params.List {
		for _, nm := range f.Names {
			o := info.Defs[nm]
			if isStringType(o.Type()) {
				line = o
			} else {
				pos = o
			}
		}
	}
	// head and tail are the first and third (named) results
	var resNames []string
	if fd.Type.Results != nil {
		for _, f := range fd.Type.Results.List {
			for _, nm := range f.Names {
				resNames = append(resNames, nm.Name)
			}
		}
	}
	if len(resNames) != 3 {
		c.Ob(rule, "fast.Interp.CompleteWords/results", fd, false, "three named results (head, completions, tail) expected")
		return
	}
	headName, tailName := resNames[0], resNames[2]
	var headIdx, tailIdx string
	clamp := false
	ast.Inspect(fd.Body, func(nd ast.Node) bool {
		switch x := nd.(type) {
		case *ast.AssignStmt:
			if len(x.Lhs) == 1 && len(x.Rhs) == 1 {
				if sl, ok := unparen(x.Rhs[0]).(*ast.SliceExpr); ok && identOf(sl.X) != nil && info.Uses[identOf(sl.X)] == line {
					if sl.Low == nil && sl.High != nil && exprString(x.Lhs[0]) == headName && headIdx == "" {
						headIdx = exprString(sl.High)
					}
					if sl.High == nil && sl.Low != nil && exprString(x.Lhs[0]) == tailName && tailIdx == "" {
						tailIdx = exprString(sl.Low)
					}
				}
			}
		case *ast.IfStmt:
			if b, ok := unparen(x.Cond).(*ast.BinaryExpr); ok && b.Op == token.GTR && identOf(b.X) != nil && info.Uses[identOf(b.X)] == pos && isLenOf(info, b.Y, line) {
				for _, st := range x.Body.List {
					if as, ok := st.(*ast.AssignStmt); ok && len(as.Lhs) == 1 && identOf(as.Lhs[0]) != nil && info.Uses[identOf(as.Lhs[0])] == pos && isLenOf(info, as.Rhs[0], line) {
						clamp = true
					}
				}
			}
		}
		return true
	})
	c.Ob(rule, "fast.Interp.CompleteWords/split", fd, headIdx != "" && headIdx == tailIdx && pos != nil && headIdx == pos.Name(), fmt.Sprintf("head = line[:%s], tail = line[%s:]: the line is split at the cursor, nothing lost or duplicated", headIdx, tailIdx))
	c.Ob(rule, "fast.Interp.CompleteWords/clamp", fd, clamp, "a cursor beyond the end of the line is clamped to its length")
	// the tail is never modified afterwards (except cleared by the panic handler)
	nt := 0
	ast.Inspect(fd.Body, func(nd ast.Node) bool {
		if _, isLit := nd.(*ast.FuncLit); isLit {
			return false
		}
		if as, ok := nd.(*ast.AssignStmt); ok {
			for _, l := range as.Lhs {
				if exprString(l) == tailName {
					nt++
				}
			}
		}
		return true
	})
	c.Ob(rule, "fast.Interp.CompleteWords/tail-untouched", fd, nt == 1, "the tail is assigned once")
	// head is only ever shortened to a prefix of itself: head = head[:k]
	okHead := true
	ast.Inspect(fd.Body, func(nd ast.Node) bool {
		if _, isLit := nd.(*ast.FuncLit); isLit {
			return false
		}
		if as, ok := nd.(*ast.AssignStmt); ok && len(as.Lhs) == 1 && exprString(as.Lhs[0]) == headName {
			sl, ok := unparen(as.Rhs[0]).(*ast.SliceExpr)
			if !ok || sl.Low != nil || !(exprString(sl.X) == headName || identOf(sl.X) != nil && info.Uses[identOf(sl.X)] == line) {
				okHead = false
			}
		}
		return true
	})
	c.Ob(rule, "fast.Interp.CompleteWords/head-prefix", fd, okHead, "the head is only ever a prefix of the text before the cursor")
}

// ruleWorklistHandover (W1): a breadth-first walk hands its work list over (`curr = next`) and then fills a
// new one while ranging over the old: the new list must not share the old one's backing array, i.e. after the
// handover the source variable is a fresh variable of the loop body, or is reset to nil / a new slice, never
// re-sliced to length 0.
func ruleWorklistHandover(c *Ctx, rule string, short string, files ...string) {
	pk := c.P.Pkg(short)
	if pk == nil {
		c.Ob(rule, short, nil, false, "package not loaded")
		return
	}
	info := pk.TypesInfo
	want := map[string]bool{}
	for _, f := range files {
		want[f] = true
	}
	n := 0
	for _, fd := range c.P.FuncsOf(short) {
		if fd.Body == nil || !want[baseName(c.P.Fset, fd)] {
			continue
		}
		fd := fd
		ast.Inspect(fd.Body, func(nd ast.Node) bool {
			loop, ok := nd.(*ast.ForStmt)
			if !ok {
				return true
			}
			for i, st := range loop.Body.List {
				as, ok := st.(*ast.AssignStmt)
				if !ok || as.Tok != token.ASSIGN || len(as.Lhs) != 1 || len(as.Rhs) != 1 {
					continue
				}
				a, b := identOf(as.Lhs[0]), identOf(as.Rhs[0])
				if a == nil || b == nil || b.Name == "nil" {
					continue
				}
				ao, bo := info.Uses[a], info.Uses[b]
				if ao == nil || bo == nil || ao == bo {
					continue
				}
				if _, isSl := ao.Type().Underlying().(*types.Slice); !isSl {
					continue
				}
				if _, isSl := bo.Type().Underlying().(*types.Slice); !isSl {
					continue
				}
				// b is appended to somewhere in the loop
				appended := false
				ast.Inspect(loop.Body, func(m ast.Node) bool {
					if x, ok := m.(*ast.AssignStmt); ok && len(x.Lhs) == 1 && identOf(x.Lhs[0]) != nil && info.Uses[identOf(x.Lhs[0])] == bo {
						if call, ok := unparen(x.Rhs[0]).(*ast.CallExpr); ok && exprString(call.Fun) == "append" {
							appended = true
						}
					}
					return true
				})
				if !appended {
					continue
				}
				n++
				fresh := bo.Pos() > loop.Body.Pos() && bo.Pos() < loop.Body.End()
				if !fresh && i+1 < len(loop.Body.List) {
					if nx, ok := loop.Body.List[i+1].(*ast.AssignStmt); ok && len(nx.Lhs) == 1 && identOf(nx.Lhs[0]) != nil && info.Uses[identOf(nx.Lhs[0])] == bo && len(nx.Rhs) == 1 {
						switch r := unparen(nx.Rhs[0]).(type) {
						case *ast.Ident:
							fresh = r.Name == "nil"
						case *ast.CompositeLit:
							fresh = true
						case *ast.CallExpr:
							fresh = exprString(r.Fun) == "make"
						}
					}
				}
				c.Ob(rule, funcKey(pk, fd)+"/"+a.Name+"="+b.Name, as, fresh, "after the work list is handed over, the list being filled is a new slice (a variable of the loop body, nil, make or a literal), so it cannot overwrite the one being visited")
			}
			return true
		})
	}
	if n < 3 {
		c.Ob(rule, short+"/handovers", nil, false, fmt.Sprintf("%d work-list handovers found, at least 3 expected", n))
	}
}

func init() {
	register(&PropDef{
		ID:    "C36",
		Title: "Code completion returns exactly the matching in-scope names, sorted and unique",
		Explanation: "Decided (structural clauses): Q1 every name appended to a completion list in completeWord, completeLastWord and listFieldsAndMethods is guarded by the prefix test against the typed word (len(name) >= len(word) && name[:len(word)] == word, with the size variable defined as len(word) and never reassigned); " +
			"Q2 every result of completeWord / completeLastWord is returned through sortUnique and the entry points Comp.CompleteWords / completeWords only forward such results or nil; Q3 sortUnique sorts its argument before the duplicate-removal loop, which keeps an element exactly when it differs from the previously kept one; " +
			"Q4 scope: completeWord walks every scope outwards (co = c; co != nil; co = co.Outer) over both Binds and Types, plus the keywords; members of an imported package are its Binds and Types; the methods of a field's type are offered only when the field is embedded, and the method collector dereferences a pointer type and tests, dereferences and enumerates one and the same type (its parameter); W1 the breadth-first walks over embedded fields in xreflect/lookup.go (VisitFields, FieldByName, MethodByName) never fill a work list that shares its backing array with the one being visited; " +
			"Q6 Interp.CompleteWords splits the line at the clamped cursor (head = line[:pos], tail = line[pos:]), never modifies the tail and only shortens the head to a prefix. " +
			"Q7 the partial identifier is trimmed from the very string whose length it is subtracted from, and the first word of a dotted chain is resolved by the scope walk, never by indexing one scope's Binds / Types. " +
			"Not decided: that every valid name is found by TryLookupFieldOrMethod-based navigation of dotted chains, unexported members of other packages, the exact head after trimming the partial identifier.",
		Assumptions: []string{"sort.Strings sorts", "xreflect.Type.Method enumerates the method set of a named type"},
		Rules: []func(*Ctx){func(c *Ctx) {
			rulePrefixGuard(c, "Q1-prefix-guard")
			ruleCompletionShape(c, "Q7-completion-shape")
			ruleSortedUnique(c, "Q2-sorted-unique")
			ruleCompletionScope(c, "Q4-completion-scope")
			ruleCompletionSplit(c, "Q6-head-tail")
			ruleWorklistHandover(c, "W1-worklist-handover", "xreflect", "lookup.go")
			c.Floor("Q1-prefix-guard", 8)
		}},
		Technique: "AST/type-resolved custom analysis: guard-condition check on every append site, must-pass-through (sortUnique) on returns, chain-walk shape, subject-consistency of a closure, slice-index agreement",
		Mutants: []Mutant{
			{Name: "partial-identifier-measured-on-the-whole-line", File: "fast/repl.go", Old: "fixed := len(head) - len(TailIdentifier(head))", New: "fixed := len(head) - len(TailIdentifier(line))"},
			{Name: "chain-head-type-looked-up-in-innermost-scope", File: "fast/repl.go", Old: "} else if typ := c.TryResolveType(words[0]); typ != nil {", New: "} else if typ := c.Types[words[0]]; typ != nil {"},
			{Name: "types-offered-without-prefix-test", File: "fast/repl.go", Old: "\t\t\tfor name := range co.Types {\n\t\t\t\tif len(name) >= size && name[:size] == word {\n\t\t\t\t\tcompletions = append(completions, name)\n\t\t\t\t}\n", New: "\t\t\tfor name := range co.Types {\n\t\t\t\tif len(name) >= size {\n\t\t\t\t\tcompletions = append(completions, name)\n\t\t\t\t}\n", Canary: true},
			{Name: "last-word-not-sorted", File: "fast/repl.go", Old: "\t\tbreak\n\t}\n\treturn sortUnique(completions)", New: "\t\tbreak\n\t}\n\treturn completions", Canary: true},
			{Name: "dedup-before-sort", File: "fast/repl.go", Old: "\t\tsort.Strings(vec)\n\t\tprev := vec[0]", New: "\t\tprev := vec[0]\n\t\tdefer sort.Strings(vec)"},
			{Name: "only-innermost-scope-searched", File: "fast/repl.go", Old: "for co := c; co != nil; co = co.Outer {\n\t\t\tfor name := range co.Binds {\n\t\t\t\tif len(name) >= size", New: "for co := c; co != nil; co = nil {\n\t\t\tfor name := range co.Binds {\n\t\t\t\tif len(name) >= size"},
			{Name: "methods-of-plain-fields-promoted", File: "fast/selector.go", Old: "\t\t\tif field.Anonymous {\n\t\t\t\t// only the methods of embedded fields are promoted\n\t\t\t\tcollectMethods(field.Type)\n\t\t\t}", New: "\t\t\tcollectMethods(field.Type)"},
			{Name: "collector-tests-captured-type", File: "fast/selector.go", Old: "\t\tif typ.Kind() == r.Ptr {\n\t\t\ttyp = typ.Elem()\n\t\t\tif typ.Kind() == r.Interface {", New: "\t\tif t.Kind() == r.Ptr {\n\t\t\tt = t.Elem()\n\t\t\tif t.Kind() == r.Interface {"},
			{Name: "collector-does-not-dereference", File: "fast/selector.go", Old: "\t\tif typ.Kind() == r.Ptr {\n\t\t\ttyp = typ.Elem()\n\t\t\tif typ.Kind() == r.Interface {\n\t\t\t\t// ignore pointer-to-interface\n\t\t\t\treturn\n\t\t\t}\n\t\t}\n\t\tfor i, n := 0, typ.NumMethod()", New: "\t\tfor i, n := 0, typ.NumMethod()"},
			{Name: "worklist-resliced-in-place", File: "xreflect/lookup.go", Old: "\t\tcurr = tovisit\n\t\ttovisit = nil", New: "\t\tcurr = tovisit\n\t\ttovisit = tovisit[:0]"},
			{Name: "tail-starts-after-cursor", File: "fast/repl.go", Old: "tail = line[pos:]", New: "tail = line[pos+1:]"},
			{Name: "package-types-not-offered", File: "fast/repl.go", Old: "\t\t\tfor name := range obj.Types {\n\t\t\t\tif len(name) >= size && name[:size] == word {\n\t\t\t\t\tcompletions = append(completions, name)\n\t\t\t\t}\n\t\t\t}\n", New: ""},
			{Name: "dedup-keeps-duplicates", File: "fast/repl.go", Old: "if s := vec[i]; s != prev {", New: "if s := vec[i]; s != prev || i == 1 {"},
		},
	})
}
