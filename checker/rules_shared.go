package main

// H1 — no run-time storage shared between executions. A statement or expression closure is compiled once and then
// executed many times: recursively (an operand may re-enter the same closure before it finishes), from several
// goroutines, and once per evaluation of the code it belongs to. Storage it writes at run time must therefore be
// allocated inside the closure. Decided, for every function literal of package fast whose first parameter is *Env:
//   (a) it does not assign to an element of a slice that is a captured local of the enclosing compile function
//       allocated there with make (a scratch buffer hoisted out of the closure);
//   (b) it does not return a captured xreflect.Value that the enclosing function obtained from an allocating
//       primitive (New, MakeSlice, MakeMap, MakeMapWithSize, MakeChan): every evaluation would hand out the same
//       storage (Zero and ValueOf results are immutable and may be shared).
// Captured scalars used as caches are not covered (they are idempotent by construction; V2 judges their keys).

import (
	"fmt"
	"go/ast"
	"go/token"
	"go/types"
	"sort"
)

func ruleNoSharedRuntimeStorage(c *Ctx, rule string) {
	pk := c.P.Pkg("fast")
	info := pk.TypesInfo
	type res struct {
		n     int
		bad   []string
		first ast.Node
	}
	per := map[string]*res{}
	allocators := map[string]bool{"New": true, "MakeSlice": true, "MakeMap": true, "MakeMapWithSize": true, "MakeChan": true}
	for _, fd := range c.P.FuncsOf("fast") {
		if fd.Body == nil {
			continue
		}
		fkey := funcKey(pk, fd)
		var di *defIndex
		var lits []*ast.FuncLit
		ast.Inspect(fd.Body, func(n ast.Node) bool {
			if l, ok := n.(*ast.FuncLit); ok {
				if l.Type.Params != nil && len(l.Type.Params.List) >= 1 && isEnvPtr(typeOrInvalid(info, l.Type.Params.List[0].Type)) {
					lits = append(lits, l)
				}
			}
			return true
		})
		if len(lits) == 0 {
			continue
		}
		r := &res{first: fd}
		per[fkey] = r
		for _, lit := range lits {
			r.n++
			captured := func(o types.Object) bool {
				return o != nil && o.Pos() > fd.Pos() && o.Pos() < fd.End() && !(o.Pos() >= lit.Pos() && o.Pos() < lit.End())
			}
			ast.Inspect(lit.Body, func(n ast.Node) bool {
				switch x := n.(type) {
				case *ast.FuncLit:
					return false // nested literals (goroutine bodies, deferred functions) are judged as part of their own run
				case *ast.AssignStmt:
					// p := &buf[i] followed by a store through p (p.f = v, *p = v)
					if len(x.Lhs) == 1 && len(x.Rhs) == 1 && identOf(x.Lhs[0]) != nil {
						if u, ok := unparen(x.Rhs[0]).(*ast.UnaryExpr); ok && u.Op == token.AND {
							if ix, ok := unparen(u.X).(*ast.IndexExpr); ok && identOf(ix.X) != nil {
								o := info.Uses[identOf(ix.X)]
								if captured(o) && isMadeSlice(info, fd, &di, o) {
									po := info.Defs[identOf(x.Lhs[0])]
									if po == nil {
										po = info.Uses[identOf(x.Lhs[0])]
									}
									ast.Inspect(lit.Body, func(m ast.Node) bool {
										as, ok := m.(*ast.AssignStmt)
										if !ok || as.Tok == token.DEFINE {
											return true
										}
										for _, l := range as.Lhs {
											root := unparen(l)
											for {
												switch y := root.(type) {
												case *ast.SelectorExpr:
													root = unparen(y.X)
													continue
												case *ast.StarExpr:
													root = unparen(y.X)
													continue
												}
												break
											}
											if root != unparen(l) && usedObj(info, root) == po && po != nil {
												r.bad = append(r.bad, fmt.Sprintf("%s: store through a pointer to an element of the captured buffer %s (allocated once by the compile function)", c.pos(as), identOf(ix.X).Name))
											}
										}
										return true
									})
								}
							}
						}
					}
					for _, l := range x.Lhs {
						ix, ok := unparen(l).(*ast.IndexExpr)
						if !ok {
							continue
						}
						id := identOf(ix.X)
						if id == nil {
							continue
						}
						o := info.Uses[id]
						if captured(o) && isMadeSlice(info, fd, &di, o) {
							r.bad = append(r.bad, fmt.Sprintf("%s: element of the captured buffer %s (allocated once by the compile function) is written at run time", c.pos(x), id.Name))
						}
					}
				case *ast.ReturnStmt:
					for _, e := range x.Results {
						id := identOf(e)
						if id == nil {
							continue
						}
						o := info.Uses[id]
						if !captured(o) || !isNamedType(o.Type(), "xreflect", "Value") {
							continue
						}
						if di == nil {
							di = buildDefIndex(info, fd)
						}
						for _, d := range di.defs[o] {
							if d == nil {
								continue
							}
							alloc := false
							ast.Inspect(d, func(m ast.Node) bool {
								if call, ok := m.(*ast.CallExpr); ok {
									if fn := calleeOf(info, call); fn != nil && allocators[fn.Name()] && fn.Pkg() != nil && (fn.Pkg().Name() == "xreflect" || fn.Pkg().Path() == "reflect") {
										alloc = true
									}
								}
								return true
							})
							if alloc {
								r.bad = append(r.bad, fmt.Sprintf("%s: returns the captured value %s allocated once at %s: every evaluation shares its storage", c.pos(x), id.Name, c.pos(d)))
							}
						}
					}
				}
				return true
			})
		}
	}
	var keys []string
	for k := range per {
		keys = append(keys, k)
	}
	sort.Strings(keys)
	total := 0
	for _, k := range keys {
		r := per[k]
		total += r.n
		if len(r.bad) == 0 {
			c.ObTrivial(rule, k, r.first, true, fmt.Sprintf("%d run-time closures allocate what they write", r.n))
			continue
		}
		c.Ob(rule, k, r.first, false, r.bad[0])
	}
	c.Extra(rule+"_closures", total)
	if total < 3000 {
		c.Ob(rule, "fast/closures", nil, false, fmt.Sprintf("%d run-time closures found, more than 3000 expected", total))
	}
}

// A6m — operand order of an assignment to a place. Go evaluates the operands of the left-hand side (the map or
// container, then the key or index) before the right-hand side. In every statement closure of the place
// compilers (functions with a *Place parameter) the calls of captured operand closures are classified by
// provenance: L derives from place.Fun, K from place.MapKey, R from the value parameter of the compile function;
// in source order every L precedes every K and every R, and every K precedes every R.
func rulePlaceOperandOrder(c *Ctx, rule string, files []string) {
	pk := c.P.Pkg("fast")
	info := pk.TypesInfo
	fileSet := map[string]bool{}
	for _, f := range files {
		fileSet[f] = true
	}
	type res struct {
		n, judged int
		bad       string
		first     ast.Node
	}
	per := map[string]*res{}
	for _, fd := range c.P.FuncsOf("fast") {
		if fd.Body == nil || !fileSet[baseName(c.P.Fset, fd)] || fd.Type.Params == nil {
			continue
		}
		var params []types.Object
		hasPlace := false
		for _, f := range fd.Type.Params.List {
			for _, nm := range f.Names {
				o := info.Defs[nm]
				params = append(params, o)
				if o != nil && isNamedType(o.Type(), "fast", "Place") {
					hasPlace = true
				}
			}
		}
		if !hasPlace || len(params) < 2 {
			continue
		}
		last := params[len(params)-1]
		if last == nil || isNamedType(last.Type(), "fast", "Place") {
			continue
		}
		di := buildDefIndex(info, fd)
		fkey := funcKey(pk, fd)
		r := &res{first: fd}
		cls := func(id *ast.Ident) string {
			switch chainEndsInField(info, di, id, 0) {
			case "Fun":
				return "L"
			case "MapKey":
				return "K"
			}
			if di.rootOf(info, id, 0) == last {
				return "R"
			}
			return ""
		}
		ast.Inspect(fd.Body, func(n ast.Node) bool {
			lit, ok := n.(*ast.FuncLit)
			if !ok || !isStmtSig(info.TypeOf(lit)) {
				return true
			}
			r.n++
			type ev struct {
				k   string
				pos int
				at  ast.Node
			}
			var evs []ev
			inspectCalls(lit.Body, func(call *ast.CallExpr) {
				id := identOf(call.Fun)
				if id == nil || len(call.Args) != 1 || !isEnvPtr(typeOrInvalid(info, call.Args[0])) {
					return
				}
				o := info.Uses[id]
				if o == nil || (o.Pos() >= lit.Pos() && o.Pos() < lit.End()) {
					return
				}
				if k := cls(id); k != "" {
					evs = append(evs, ev{k, int(call.Pos()), call})
				}
			})
			if len(evs) >= 2 {
				r.judged++
			}
			rank := map[string]int{"L": 0, "K": 1, "R": 2}
			for i := range evs {
				for j := range evs {
					if evs[i].pos < evs[j].pos && rank[evs[i].k] > rank[evs[j].k] && r.bad == "" {
						r.bad = fmt.Sprintf("%s: operand %s (%s) is evaluated before operand %s (%s)", c.pos(evs[i].at), exprString(evs[i].at.(*ast.CallExpr).Fun), map[string]string{"L": "container", "K": "key", "R": "right-hand side"}[evs[i].k], exprString(evs[j].at.(*ast.CallExpr).Fun), map[string]string{"L": "container", "K": "key", "R": "right-hand side"}[evs[j].k])
						r.first = evs[i].at
					}
				}
			}
			return false
		})
		if r.n > 0 {
			per[fkey] = r
		}
	}
	var keys []string
	for k := range per {
		keys = append(keys, k)
	}
	sort.Strings(keys)
	judged := 0
	for _, k := range keys {
		r := per[k]
		judged += r.judged
		if r.judged == 0 {
			continue
		}
		c.Ob(rule, k, r.first, r.bad == "", fmt.Sprintf("%d statement closures evaluate container, key and right-hand side in Go's order%s", r.judged, sep(r.bad)))
	}
	if judged < 100 {
		c.Ob(rule, "fast/place-compilers", nil, false, fmt.Sprintf("%d closures with two or more classified operands found, more than 100 expected", judged))
	}
}

// N3 — result slots start at zero. A function that leaves without executing `return` (it panics and a deferred
// function recovers) returns the current contents of its result slots, and frames are recycled: the slots must be
// zeroed at function entry. DeclVar0 compiles that initialisation; NewBind only reserves the slot. Decided: every
// element stored into the result-bind slice of funcResultBinds is the result of a DeclVar0 call.
func ruleResultSlotsZeroed(c *Ctx, rule string) {
	pk := c.P.Pkg("fast")
	info := pk.TypesInfo
	fd := c.P.Func("fast.Comp.funcResultBinds")
	if fd == nil || fd.Body == nil || fd.Type.Results == nil || len(fd.Type.Results.List) == 0 || len(fd.Type.Results.List[0].Names) == 0 {
		c.Ob(rule, "fast.Comp.funcResultBinds", nil, false, "anchor function not found (named results expected)")
		return
	}
	binds := info.Defs[fd.Type.Results.List[0].Names[0]]
	di := buildDefIndex(info, fd)
	n := 0
	ast.Inspect(fd.Body, func(nd ast.Node) bool {
		as, ok := nd.(*ast.AssignStmt)
		if !ok || len(as.Lhs) != 1 || len(as.Rhs) != 1 {
			return true
		}
		ix, ok := unparen(as.Lhs[0]).(*ast.IndexExpr)
		if !ok || usedObj(info, ix.X) != binds {
			return true
		}
		n++
		good := true
		why := ""
		var defs []ast.Expr
		if id := identOf(as.Rhs[0]); id != nil {
			defs = di.defs[info.Uses[id]]
		} else {
			defs = []ast.Expr{as.Rhs[0]}
		}
		if len(defs) == 0 {
			good, why = false, "no definition of the stored bind found"
		}
		for _, d := range defs {
			call, ok := unparen(d).(*ast.CallExpr)
			if d == nil || !ok || funcFullName(calleeOf(info, call)) != "fast.Comp.DeclVar0" {
				good = false
				why = "one definition of the stored bind is not a DeclVar0 call: the slot is reserved but not zeroed at function entry"
			}
		}
		c.Ob(rule, fmt.Sprintf("fast.Comp.funcResultBinds/bind#%d", n), as, good, "every result bind is declared with DeclVar0, which zeroes its slot each time the function is entered"+sep(why))
		return true
	})
	if n == 0 {
		c.Ob(rule, "fast.Comp.funcResultBinds", fd, false, "no store into the result-bind slice found: anchor missing")
	}
}

// PE3 — growing a slot array keeps its contents. prepareEnv replaces Env.Vals / Env.Ints by a larger array when the
// compiler reserved more slots than fit: `if capacity < min { ...; binds := make(T, min, capacity); copy(binds, old);
// env.X = binds }`. copy transfers min(len(dst), len(src)) elements, so the new array must be made with the
// required length, not empty. Decided: in prepareEnv the destination of every copy from a slot array is a slice made
// in the same block whose length argument is the variable the guarding condition compares the capacity with.
func ruleGrowKeepsContents(c *Ctx, rule string) {
	pk := c.P.Pkg("fast")
	info := pk.TypesInfo
	fd := c.P.Func("fast.Interp.prepareEnv")
	if fd == nil || fd.Body == nil {
		c.Ob(rule, "fast.Interp.prepareEnv", nil, false, "anchor function not found")
		return
	}
	n := 0
	ast.Inspect(fd.Body, func(nd ast.Node) bool {
		ifs, ok := nd.(*ast.IfStmt)
		if !ok {
			return true
		}
		for _, st := range ifs.Body.List {
			es, ok := st.(*ast.ExprStmt)
			if !ok {
				continue
			}
			call, ok := es.X.(*ast.CallExpr)
			if !ok || identOf(call.Fun) == nil || identOf(call.Fun).Name != "copy" || len(call.Args) != 2 {
				continue
			}
			if _, isB := info.Uses[identOf(call.Fun)].(*types.Builtin); !isB {
				continue
			}
			src := ""
			if _, is := fieldSel(info, call.Args[1], "Vals"); is {
				src = "Vals"
			}
			if _, is := fieldSel(info, call.Args[1], "Ints"); is {
				src = "Ints"
			}
			if src == "" {
				continue
			}
			n++
			dst := usedObj(info, call.Args[0])
			good, why := false, "the destination is not a slice made in the same block"
			for _, st2 := range ifs.Body.List {
				as, ok := st2.(*ast.AssignStmt)
				if !ok || len(as.Lhs) != 1 || len(as.Rhs) != 1 || identOf(as.Lhs[0]) == nil || info.Defs[identOf(as.Lhs[0])] != dst || as.Pos() > call.Pos() {
					continue
				}
				mk, ok := unparen(as.Rhs[0]).(*ast.CallExpr)
				if !ok || identOf(mk.Fun) == nil || identOf(mk.Fun).Name != "make" || len(mk.Args) < 2 {
					continue
				}
				lenObj := usedObj(info, mk.Args[1])
				inGuard := false
				ast.Inspect(ifs.Cond, func(x ast.Node) bool {
					if id, ok := x.(*ast.Ident); ok && lenObj != nil && info.Uses[id] == lenObj {
						inGuard = true
					}
					return true
				})
				if lenObj != nil && inGuard {
					good, why = true, ""
				} else {
					why = "the new array is made with length " + exprString(mk.Args[1]) + ", not with the required length the guard compares the capacity with: copy transfers fewer elements than the old array holds"
				}
			}
			c.Ob(rule, "fast.Interp.prepareEnv/grow:"+src, call, good, "the enlarged "+src+" array is made with the required length before the old contents are copied into it"+sep(why))
		}
		return true
	})
	if n < 2 {
		c.Ob(rule, "fast.Interp.prepareEnv", fd, false, fmt.Sprintf("%d growth blocks found, 2 expected (Vals, Ints)", n))
	}
}

// H2 — no unsynchronised run-time write to compile-time variables. A statement or expression closure may be executed
// by several goroutines at once (a function called from two goroutines shares its compiled closures). A plain
// assignment, inside such a closure, to a variable captured from the enclosing compile function is therefore a data
// race of the interpreter itself, whatever the variable is used for (the call-site caches `cachedfun`/`cachedfunv`
// are the instance found on the pinned tree). Decided, for every function literal of package fast whose first
// parameter is *Env: it does not assign (=, op=, ++, --) to a local variable of the enclosing function declaration.
// Writes inside nested literals started with `go` or registered with `defer` belong to that run and are not counted;
// writes to fields reached through *Env are per-frame state and are not captured variables.
func ruleNoRuntimeWritesToCaptured(c *Ctx, rule string) {
	pk := c.P.Pkg("fast")
	info := pk.TypesInfo
	type res struct {
		lits, writes int
		vars         map[string]bool
		first        ast.Node
	}
	per := map[string]*res{}
	for _, fd := range c.P.FuncsOf("fast") {
		if fd.Body == nil {
			continue
		}
		fkey := funcKey(pk, fd)
		var lits []*ast.FuncLit
		ast.Inspect(fd.Body, func(n ast.Node) bool {
			if l, ok := n.(*ast.FuncLit); ok {
				if l.Type.Params != nil && len(l.Type.Params.List) >= 1 && isEnvPtr(typeOrInvalid(info, l.Type.Params.List[0].Type)) {
					lits = append(lits, l)
					return false // nested run-time literals are part of this one
				}
			}
			return true
		})
		if len(lits) == 0 {
			continue
		}
		r := &res{vars: map[string]bool{}, first: fd}
		for _, lit := range lits {
			r.lits++
			captured := func(e ast.Expr) (types.Object, bool) {
				id := identOf(e)
				if id == nil {
					return nil, false
				}
				o, ok := info.Uses[id].(*types.Var)
				if !ok || o.IsField() {
					return nil, false
				}
				if o.Pos() > fd.Pos() && o.Pos() < fd.End() && !(o.Pos() >= lit.Pos() && o.Pos() < lit.End()) {
					return o, true
				}
				return nil, false
			}
			note := func(e ast.Expr, at ast.Node) {
				if o, ok := captured(e); ok {
					r.writes++
					r.vars[o.Name()] = true
					if r.writes == 1 {
						r.first = at
					}
				}
			}
			ast.Inspect(lit.Body, func(n ast.Node) bool {
				switch x := n.(type) {
				case *ast.AssignStmt:
					if x.Tok != token.DEFINE {
						for _, l := range x.Lhs {
							note(l, x)
						}
					}
				case *ast.IncDecStmt:
					note(x.X, x)
				}
				return true
			})
		}
		per[fkey] = r
	}
	var keys []string
	for k := range per {
		keys = append(keys, k)
	}
	sort.Strings(keys)
	total := 0
	for _, k := range keys {
		r := per[k]
		total += r.lits
		if r.writes == 0 {
			c.ObTrivial(rule, k, r.first, true, fmt.Sprintf("%d run-time closures write no variable of the compile function", r.lits))
			continue
		}
		var vs []string
		for v := range r.vars {
			vs = append(vs, v)
		}
		sort.Strings(vs)
		c.Ob(rule, k, r.first, false, fmt.Sprintf("%d assignments inside run-time closures to variables of the compile function (%v): closures are shared by all goroutines that execute the same code, so this is an unsynchronised write", r.writes, vs))
	}
	c.Extra(rule+"_closures", total)
}

// A2c — accessors inside a category arm. Where a compile function switches on the category of the place's type
// (`switch cat { case xr.Int: ... case xr.Uint: ... }` with cat := reflect.Category(t.Kind())), every reflect
// accessor applied in that arm to a value read from or written to the place — Int/Uint/Float/Complex, SetInt/SetUint
// ..., and the helpers mapIndexInt / mapIndexUint — has the category of the arm. (A2 judges accessors under a
// conversion T(v.Acc()); the closures for shifts and for division by a power of two read `result := lhs.Int()`
// without one, and two arms are too few for the sibling-uniformity vote.)
func ruleAccessorInCategoryArm(c *Ctx, rule string, files []string) {
	pk := c.P.Pkg("fast")
	info := pk.TypesInfo
	fileSet := map[string]bool{}
	for _, f := range files {
		fileSet[f] = true
	}
	type res struct {
		n     int
		bad   string
		first ast.Node
	}
	per := map[string]*res{}
	helperCat := map[string]string{"mapIndexInt": "Int", "mapIndexUint": "Uint"}
	for _, fd := range c.P.FuncsOf("fast") {
		if fd.Body == nil || !fileSet[baseName(c.P.Fset, fd)] {
			continue
		}
		fkey := funcKey(pk, fd)
		di := buildDefIndex(info, fd)
		ast.Inspect(fd.Body, func(n ast.Node) bool {
			sw, ok := n.(*ast.SwitchStmt)
			if !ok || sw.Tag == nil {
				return true
			}
			// tag is a category: reflect.Category(...) directly or through a local
			tag := unparen(sw.Tag)
			if id := identOf(tag); id != nil {
				if d := di.single(info.Uses[id]); d != nil {
					tag = unparen(d)
				}
			}
			call, ok := tag.(*ast.CallExpr)
			if !ok {
				return true
			}
			if fn := calleeOf(info, call); fn == nil || fn.Name() != "Category" {
				return true
			}
			for _, cc := range sw.Body.List {
				cl := cc.(*ast.CaseClause)
				if len(cl.List) != 1 {
					continue
				}
				o := usedObj(info, cl.List[0])
				if o == nil {
					continue
				}
				want := kindCategory(o.Name())
				if want != "Int" && want != "Uint" && want != "Float" && want != "Complex" {
					continue
				}
				for _, st := range cl.Body {
					inspectCalls(st, func(call *ast.CallExpr) {
						got := ""
						if fn := calleeOf(info, call); fn != nil && fn.Pkg() == pk.Types {
							got = helperCat[fn.Name()]
						}
						if sel, ok := unparen(call.Fun).(*ast.SelectorExpr); ok && isReflectValue(info.TypeOf(sel.X)) {
							if g, ok := getAccessors[sel.Sel.Name]; ok && len(call.Args) == 0 {
								got = g
							}
							if g, ok := setAccessors[sel.Sel.Name]; ok && len(call.Args) == 1 {
								got = g
							}
						}
						if got == "" || got == "String" || got == "Bool" {
							return
						}
						r := per[fkey]
						if r == nil {
							r = &res{first: call}
							per[fkey] = r
						}
						r.n++
						if got != want && r.bad == "" {
							r.bad = fmt.Sprintf("%s: %s in the arm of category %s", c.pos(call), exprString(call.Fun), want)
							r.first = call
						}
					})
				}
			}
			return true
		})
	}
	var keys []string
	for k := range per {
		keys = append(keys, k)
	}
	sort.Strings(keys)
	total := 0
	for _, k := range keys {
		r := per[k]
		total += r.n
		c.Ob(rule, k, r.first, r.bad == "", fmt.Sprintf("%d reflect accessors inside category arms have the category of their arm%s", r.n, sep(r.bad)))
	}
	if total < 20 {
		c.Ob(rule, "fast/category-arms", nil, false, fmt.Sprintf("%d accessors in category arms found, more than 20 expected", total))
	}
}

// isMadeSlice: o is a slice-typed local of fd one of whose definitions is a call of the builtin make.
func isMadeSlice(info *types.Info, fd *ast.FuncDecl, di **defIndex, o types.Object) bool {
	if o == nil {
		return false
	}
	if _, isSlice := o.Type().Underlying().(*types.Slice); !isSlice {
		return false
	}
	if *di == nil {
		*di = buildDefIndex(info, fd)
	}
	for _, d := range (*di).defs[o] {
		if d == nil {
			continue
		}
		if call, ok := unparen(d).(*ast.CallExpr); ok && identOf(call.Fun) != nil && identOf(call.Fun).Name == "make" {
			if _, isB := info.Uses[identOf(call.Fun)].(*types.Builtin); isB {
				return true
			}
		}
	}
	return false
}
