#!/bin/sh
# validates MANIFEST.json and every evidence file against the harness schemas
python3-vt - <<'P'
import json,jsonschema,glob,sys
m=json.load(open('/verif/MANIFEST.json')); jsonschema.validate(m,json.load(open('/root/.vp/MANIFEST.schema.json')))
es=json.load(open('/root/.vp/EVIDENCE.schema.json'))
bad=0
for f in sorted(glob.glob('/verif/evidence/*.json')):
    try: jsonschema.validate(json.load(open(f)),es)
    except Exception as e: print('INVALID',f,str(e)[:200]); bad+=1
ids=[c['property_id'] for c in m['checks']]+[n['property_id'] for n in m.get('not_applicable',[])]
assert sorted(ids)==sorted(set(ids)) and len(ids)==39, ids
print('manifest valid: checks=%d not_applicable=%d evidence_bad=%d'%(len(m['checks']),len(m.get('not_applicable',[])),bad))
sys.exit(1 if bad else 0)
P
./bin/gmcheck -lintmutants >/dev/null || { ./bin/gmcheck -lintmutants; exit 1; }
